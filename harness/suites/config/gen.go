package main

import (
	"math"
	"os"
	"strconv"

	yaml "go.yaml.in/yaml/v2"

	"verif/harness/h"
)

func float64bits(f float64) uint64 { return math.Float64bits(f) }

var repoDir = func() string {
	if d := os.Getenv("VERIF_REPO"); d != "" {
		return d
	}
	return "/repo"
}()

// ---------------------------------------------------------------- schema of the generated part

type fld struct {
	key  string
	kind string // dur str bytes uint int bool vscheme escheme scheme path proto url pbmsg apiver strategy floats
}

var (
	globalF = []fld{{"scrape_interval", "dur"}, {"scrape_timeout", "dur"}, {"evaluation_interval", "dur"}, {"rule_query_offset", "dur"},
		{"query_log_file", "str"}, {"scrape_failure_log_file", "str"}, {"body_size_limit", "bytes"}, {"sample_limit", "uint"},
		{"target_limit", "uint"}, {"label_limit", "uint"}, {"label_name_length_limit", "uint"}, {"label_value_length_limit", "uint"},
		{"keep_dropped_targets", "uint"}, {"metric_name_validation_scheme", "vscheme"}, {"metric_name_escaping_scheme", "escheme"},
		{"scrape_native_histograms", "bool"}, {"convert_classic_histograms_to_nhcb", "bool"}, {"always_scrape_classic_histograms", "bool"},
		{"extra_scrape_metrics", "bool"}}
	scrapeF = []fld{{"honor_labels", "bool"}, {"honor_timestamps", "bool"}, {"track_timestamps_staleness", "bool"},
		{"scrape_interval", "dur"}, {"scrape_timeout", "dur"}, {"fallback_scrape_protocol", "proto"}, {"scrape_native_histograms", "bool"},
		{"always_scrape_classic_histograms", "bool"}, {"convert_classic_histograms_to_nhcb", "bool"}, {"scrape_failure_log_file", "str"},
		{"metrics_path", "path"}, {"scheme", "scheme"}, {"enable_compression", "bool"}, {"body_size_limit", "bytes"}, {"sample_limit", "uint"},
		{"target_limit", "uint"}, {"label_limit", "uint"}, {"label_name_length_limit", "uint"}, {"label_value_length_limit", "uint"},
		{"native_histogram_bucket_limit", "uint"}, {"keep_dropped_targets", "uint"}, {"metric_name_validation_scheme", "vscheme"},
		{"metric_name_escaping_scheme", "escheme"}, {"extra_scrape_metrics", "bool"}}
	rwF = []fld{{"remote_timeout", "dur"}, {"name", "str"}, {"send_exemplars", "bool"}, {"send_native_histograms", "bool"},
		{"round_robin_dns", "bool"}, {"protobuf_message", "pbmsg"}, {"failed_request_logging", "bool"}}
	queueF = []fld{{"capacity", "pos"}, {"max_shards", "pos"}, {"min_shards", "pos"}, {"max_samples_per_send", "pos"},
		{"batch_send_deadline", "dur"}, {"min_backoff", "dur"}, {"max_backoff", "dur"}, {"retry_on_http_429", "bool"}, {"sample_age_limit", "dur"}}
	metaF = []fld{{"send", "bool"}, {"send_interval", "dur"}, {"max_samples_per_send", "uint"}}
	rrF   = []fld{{"remote_timeout", "dur"}, {"chunked_read_limit", "uint"}, {"read_recent", "bool"}, {"name", "str"}, {"filter_external_labels", "bool"}}
	amF   = []fld{{"scheme", "scheme"}, {"path_prefix", "path"}, {"timeout", "dur"}, {"api_version", "apiver"}}
	otlpF = []fld{{"promote_all_resource_attributes", "bool"}, {"translation_strategy", "strategy"}, {"keep_identifying_resource_attributes", "bool"},
		{"convert_histograms_to_nhcb", "bool"}, {"promote_scope_metadata", "bool"}, {"label_name_underscore_sanitization", "bool"},
		{"label_name_preserve_multiple_underscores", "bool"}}
	tsdbF      = []fld{{"out_of_order_time_window", "dur"}}
	retentionF = []fld{{"time", "dur"}, {"size", "bytes"}}
)

var (
	durPool    = []string{"0s", "1ms", "30ms", "1s", "5s", "10s", "15s", "30s", "1m", "90s", "2m", "5m", "1h", "1h30m", "1d", "1w", "1y", "0"}
	strPool    = []string{"", "a", "/var/log/q.log", "x y", "ü", "$x", "a: b", "#c", "true", "10"}
	bytesPool  = []string{"0", "1B", "1KB", "10MB", "1GiB", "512KiB", "1KB512B", "0B"}
	uintPool   = []int{0, 1, 5, 100, 2000, 50000000, 1000000}
	posPool    = []int{1, 1, 2, 50, 100, 2000, 10000, 0, -1}
	intPool    = []int{0, 1, 50, 75, 100, -1}
	protoPool  = []string{"PrometheusProto", "PrometheusText0.0.4", "PrometheusText1.0.0", "OpenMetricsText0.0.1", "OpenMetricsText1.0.0"}
	urlPool    = []string{"http://a/b", "https://x.example:9090/api/v1/write", "http://localhost:1", "http://h/p?q=1"}
	escPool    = []string{"", "allow-utf-8", "underscores", "dots", "values"}
	stratPool  = []string{"", "UnderscoreEscapingWithSuffixes", "UnderscoreEscapingWithoutSuffixes", "NoUTF8EscapingWithSuffixes", "NoTranslation"}
	regexPool  = []string{"", "(.*)", "foo", "a.*b", "(a|b)", ".+", "x(y)?", "\\d+"}
	lnamePool  = []string{"a", "b", "job", "instance", "__name__", "__address__", "env", "x_1", "__tmp"}
	replPool   = []string{"", "$1", "${1}", "x", "$1:$2", "a b"}
	actionPool = []string{"replace", "keep", "drop", "hashmod", "labelmap", "labeldrop", "labelkeep", "lowercase", "uppercase", "keepequal", "dropequal"}
)

type gen struct {
	r *h.Rng
	c *h.Ctx
}

func (g *gen) scalar(kind string) any {
	r := g.r
	switch kind {
	case "dur":
		return h.Pick(r, durPool)
	case "str":
		return h.Pick(r, strPool)
	case "bytes":
		return h.Pick(r, bytesPool)
	case "uint":
		return h.Pick(r, uintPool)
	case "pos":
		return h.Pick(r, posPool)
	case "int":
		return h.Pick(r, intPool)
	case "bool":
		return r.Bool()
	case "vscheme":
		return h.Pick(r, []string{"", "utf8", "legacy", "utf8"})
	case "escheme":
		return h.Pick(r, escPool)
	case "scheme":
		return h.Pick(r, []string{"", "http", "https"})
	case "path":
		return h.Pick(r, []string{"", "/metrics", "/m", "/federate"})
	case "proto":
		return h.Pick(r, append([]string{""}, protoPool...))
	case "pbmsg":
		return h.Pick(r, []string{"prometheus.WriteRequest", "io.prometheus.write.v2.Request", "prometheus.WriteRequest", ""})
	case "apiver":
		return h.Pick(r, []string{"v2", "v2", "v2", "v1"})
	case "strategy":
		return h.Pick(r, stratPool)
	case "floats":
		return h.Pick(r, []string{"", "xor", "xor2"})
	}
	panic("kind " + kind)
}

func zeroOfKind(kind string) any {
	switch kind {
	case "dur":
		return "0s"
	case "bytes":
		return "0"
	case "uint", "pos", "int":
		return 0
	case "bool":
		return false
	}
	return ""
}

// fields picks each field with probability p (percent).
func (g *gen) fields(fs []fld, p int) yaml.MapSlice {
	var m yaml.MapSlice
	for _, f := range fs {
		if g.r.Chance(p) {
			var v any
			if g.r.Chance(25) {
				v = zeroOfKind(f.kind)
				g.c.Count("gen:explicit-zero")
			} else {
				v = g.scalar(f.kind)
			}
			m = append(m, yaml.MapItem{Key: f.key, Value: v})
		}
	}
	return m
}

func (g *gen) protocols() []any {
	r := g.r
	perm := append([]string{}, protoPool...)
	for i := len(perm) - 1; i > 0; i-- {
		j := r.Intn(i + 1)
		perm[i], perm[j] = perm[j], perm[i]
	}
	n := 1 + r.Intn(len(perm))
	var out []any
	for _, p := range perm[:n] {
		out = append(out, p)
	}
	if r.Chance(3) {
		out = append(out, out[0]) // duplicate: rejected
	}
	return out
}

func (g *gen) relabel(allowSrc bool) yaml.MapSlice {
	r := g.r
	act := h.Pick(r, actionPool)
	var m yaml.MapSlice
	put := func(k string, v any) { m = append(m, yaml.MapItem{Key: k, Value: v}) }
	src := func() {
		n := r.Intn(3)
		var l []any
		for i := 0; i < n; i++ {
			l = append(l, h.Pick(r, lnamePool))
		}
		if n > 0 || r.Chance(20) {
			if l == nil {
				l = []any{}
			}
			put("source_labels", l)
		}
	}
	switch act {
	case "replace":
		src()
		if r.Chance(50) {
			put("separator", h.Pick(r, []string{";", "", ",", "@"}))
		}
		if r.Chance(60) {
			put("regex", h.Pick(r, regexPool))
		}
		if !r.Chance(4) {
			put("target_label", h.Pick(r, append(lnamePool, "${1}", "a_${1}")))
		}
		if r.Chance(60) {
			put("replacement", h.Pick(r, replPool))
		}
		if r.Chance(50) {
			put("action", "replace")
		}
	case "keep", "drop":
		src()
		if r.Chance(30) {
			put("separator", h.Pick(r, []string{";", "", ","}))
		}
		put("regex", h.Pick(r, regexPool))
		put("action", act)
	case "hashmod":
		src()
		put("target_label", h.Pick(r, lnamePool))
		put("modulus", h.Pick(r, []int{1, 2, 8, 1000, 0}))
		put("action", act)
	case "labelmap":
		put("regex", h.Pick(r, regexPool))
		if r.Chance(50) {
			put("replacement", h.Pick(r, []string{"$1", "x_$1", "${1}_y"}))
		}
		put("action", act)
	case "labeldrop", "labelkeep":
		put("regex", h.Pick(r, regexPool))
		if r.Chance(5) {
			put("target_label", "x") // rejected: no other fields allowed
		}
		put("action", act)
	case "lowercase", "uppercase":
		src()
		put("target_label", h.Pick(r, lnamePool))
		if r.Chance(5) {
			put("replacement", "x") // rejected
		}
		put("action", act)
	case "keepequal", "dropequal":
		src()
		put("target_label", h.Pick(r, lnamePool))
		if r.Chance(5) {
			put("regex", "foo") // rejected
		}
		put("action", act)
	}
	return m
}

func (g *gen) relabels(m *yaml.MapSlice, key string, p int) {
	if !g.r.Chance(p) {
		return
	}
	n := g.r.Intn(4)
	l := []any{}
	for i := 0; i < n; i++ {
		l = append(l, g.relabel(true))
	}
	*m = append(*m, yaml.MapItem{Key: key, Value: l})
}

// timing sets scrape_interval / scrape_timeout consistently most of the time.
func (g *gen) timing(m yaml.MapSlice) yaml.MapSlice {
	if g.r.Chance(12) {
		return m // leave whatever fields() produced (may be inconsistent => rejected)
	}
	var out yaml.MapSlice
	for _, it := range m {
		if it.Key != "scrape_interval" && it.Key != "scrape_timeout" {
			out = append(out, it)
		}
	}
	type pr struct{ i, t string }
	ok := []pr{{"", ""}, {"15s", ""}, {"", "5s"}, {"1m", "10s"}, {"5s", "5s"}, {"2m", "90s"}, {"1s", ""}, {"1h", "30s"}, {"0s", "0s"}, {"30s", "0s"}, {"5s", "1ms"}}
	p := h.Pick(g.r, ok)
	if p.i != "" {
		out = append(out, yaml.MapItem{Key: "scrape_interval", Value: p.i})
	}
	if p.t != "" {
		out = append(out, yaml.MapItem{Key: "scrape_timeout", Value: p.t})
	}
	return out
}

func (g *gen) unmodelledScrape(m *yaml.MapSlice, hasRelabel bool) {
	r := g.r
	put := func(k string, v any) { *m = append(*m, yaml.MapItem{Key: k, Value: v}) }
	if r.Chance(50) {
		tg := yaml.MapSlice{{Key: "targets", Value: []any{"h1:9090", "h2:9100"}}}
		if r.Chance(50) {
			tg = append(tg, yaml.MapItem{Key: "labels", Value: yaml.MapSlice{{Key: "env", Value: "prod"}, {Key: "a", Value: ""}}})
		}
		put("static_configs", []any{tg})
	}
	if r.Chance(15) {
		put("file_sd_configs", []any{yaml.MapSlice{{Key: "files", Value: []any{"t/*.json", "x.yml"}}, {Key: "refresh_interval", Value: h.Pick(r, []string{"5m", "30s", "1m"})}}})
	}
	if r.Chance(10) {
		put("dns_sd_configs", []any{yaml.MapSlice{{Key: "names", Value: []any{"a.example"}}, {Key: "type", Value: h.Pick(r, []string{"A", "SRV", "AAAA"})}, {Key: "port", Value: 80}, {Key: "refresh_interval", Value: "45s"}}})
	}
	if r.Chance(8) {
		put("kubernetes_sd_configs", []any{yaml.MapSlice{{Key: "role", Value: h.Pick(r, []string{"pod", "node", "endpoints"})}}})
	}
	if r.Chance(8) {
		put("http_sd_configs", []any{yaml.MapSlice{{Key: "url", Value: "http://sd/x"}, {Key: "refresh_interval", Value: "2m"}, {Key: "follow_redirects", Value: false}}})
	}
	if r.Chance(15) {
		put("params", yaml.MapSlice{{Key: "match[]", Value: []any{"up", ""}}, {Key: "e", Value: []any{}}})
	}
	if r.Chance(15) {
		put("follow_redirects", r.Bool())
	}
	if r.Chance(15) {
		put("enable_http2", r.Bool())
	}
	if r.Chance(10) {
		put("tls_config", yaml.MapSlice{{Key: "insecure_skip_verify", Value: r.Bool()}, {Key: "server_name", Value: h.Pick(r, []string{"", "s"})}})
	}
	if r.Chance(8) {
		put("proxy_url", "http://proxy:3128")
	}
	if r.Chance(8) {
		put("basic_auth", yaml.MapSlice{{Key: "username", Value: "u"}})
	}
	if r.Chance(10) {
		put("native_histogram_min_bucket_factor", h.Pick(r, []float64{0, 1.5, 2, 1.0000001}))
	}
}

func (g *gen) scrape(i int) yaml.MapSlice {
	r := g.r
	name := "job" + strconv.Itoa(i)
	if r.Chance(2) {
		name = "job0"
	}
	if r.Chance(1) {
		name = ""
	}
	m := yaml.MapSlice{{Key: "job_name", Value: name}}
	m = append(m, g.timing(g.fields(scrapeF, 22))...)
	if r.Chance(20) {
		m = append(m, yaml.MapItem{Key: "scrape_protocols", Value: g.protocols()})
	}
	before := len(m)
	g.relabels(&m, "relabel_configs", 35)
	g.relabels(&m, "metric_relabel_configs", 25)
	g.unmodelledScrape(&m, len(m) > before)
	return m
}

func (g *gen) config() string {
	r := g.r
	var doc yaml.MapSlice
	put := func(k string, v any) { doc = append(doc, yaml.MapItem{Key: k, Value: v}) }
	null := func(k string) bool {
		if r.Chance(3) {
			put(k, nil)
			g.c.Count("gen:null-section")
			return true
		}
		return false
	}
	if r.Chance(70) && !null("global") {
		gm := g.timing(g.fields(globalF, 25))
		if r.Chance(20) {
			gm = append(gm, yaml.MapItem{Key: "scrape_protocols", Value: g.protocols()})
		}
		if r.Chance(40) {
			var el yaml.MapSlice
			names := []string{"region", "replica", "a", "ü", "x_y"}
			vals := []string{"eu", "", "a$$b", "$$", "${TEST}", "$TEST", "p$", "1", "x y", "$${X}", "a${}b", "${"}
			for _, n := range names {
				if r.Chance(40) {
					el = append(el, yaml.MapItem{Key: n, Value: h.Pick(r, vals)})
				}
			}
			if el != nil || r.Chance(30) {
				if el == nil {
					el = yaml.MapSlice{}
				}
				gm = append(gm, yaml.MapItem{Key: "external_labels", Value: el})
			}
		}
		if gm == nil {
			gm = yaml.MapSlice{}
		}
		put("global", gm)
	}
	if r.Chance(15) && !null("runtime") {
		put("runtime", yaml.MapSlice{{Key: "gogc", Value: h.Pick(r, intPool)}})
	}
	if r.Chance(25) {
		put("rule_files", []any{"a.yml", "rules/*.yml"}[:r.Intn(3)])
	}
	if r.Chance(10) {
		put("scrape_config_files", []any{"sc/*.yml"}[:r.Intn(2)])
	}
	if r.Chance(80) {
		n := r.Intn(4)
		l := []any{}
		for i := 0; i < n; i++ {
			l = append(l, g.scrape(i))
		}
		put("scrape_configs", l)
	}
	if r.Chance(35) && !null("alerting") {
		var am yaml.MapSlice
		g.relabels(&am, "alert_relabel_configs", 40)
		if r.Chance(80) {
			n := r.Intn(3)
			l := []any{}
			for i := 0; i < n; i++ {
				a := g.fields(amF, 35)
				g.relabels(&a, "relabel_configs", 30)
				g.relabels(&a, "alert_relabel_configs", 30)
				if r.Chance(50) {
					a = append(a, yaml.MapItem{Key: "static_configs", Value: []any{yaml.MapSlice{{Key: "targets", Value: []any{"am:9093"}}}}})
				}
				if r.Chance(10) {
					a = append(a, yaml.MapItem{Key: "enable_http2", Value: false})
				}
				if a == nil {
					a = yaml.MapSlice{}
				}
				l = append(l, a)
			}
			am = append(am, yaml.MapItem{Key: "alertmanagers", Value: l})
		}
		if am == nil {
			am = yaml.MapSlice{}
		}
		put("alerting", am)
	}
	if r.Chance(40) {
		n := r.Intn(3)
		l := []any{}
		for i := 0; i < n; i++ {
			w := yaml.MapSlice{{Key: "url", Value: h.Pick(r, urlPool)}}
			w = append(w, g.fields(rwF, 30)...)
			if r.Chance(45) {
				q := g.fields(queueF, 30)
				if q == nil {
					q = yaml.MapSlice{}
				}
				w = append(w, yaml.MapItem{Key: "queue_config", Value: q})
			}
			if r.Chance(35) {
				md := g.fields(metaF, 50)
				if md == nil {
					md = yaml.MapSlice{}
				}
				w = append(w, yaml.MapItem{Key: "metadata_config", Value: md})
			}
			g.relabels(&w, "write_relabel_configs", 30)
			if r.Chance(10) {
				w = append(w, yaml.MapItem{Key: "headers", Value: yaml.MapSlice{{Key: "X-Scope", Value: "t1"}}})
			}
			l = append(l, w)
		}
		put("remote_write", l)
	}
	if r.Chance(30) {
		n := r.Intn(3)
		l := []any{}
		for i := 0; i < n; i++ {
			w := yaml.MapSlice{{Key: "url", Value: h.Pick(r, urlPool)}}
			w = append(w, g.fields(rrF, 35)...)
			if r.Chance(15) {
				w = append(w, yaml.MapItem{Key: "required_matchers", Value: yaml.MapSlice{{Key: "job", Value: "x"}}})
			}
			l = append(l, w)
		}
		put("remote_read", l)
	}
	if r.Chance(40) && !null("otlp") {
		o := g.fields(otlpF, 35)
		if r.Chance(25) {
			key := "promote_resource_attributes"
			for _, it := range o {
				if it.Key == "promote_all_resource_attributes" && it.Value == true {
					key = "ignore_resource_attributes"
				}
			}
			if r.Chance(6) {
				key = "ignore_resource_attributes"
			}
			o = append(o, yaml.MapItem{Key: key, Value: []any{"service.name", "k8s.pod.name", "a"}[:r.Intn(4)]})
		}
		if o == nil {
			o = yaml.MapSlice{}
		}
		put("otlp", o)
	}
	if r.Chance(30) && !null("storage") {
		var s yaml.MapSlice
		if r.Chance(70) {
			t := g.fields(tsdbF, 60)
			if r.Chance(40) {
				t = append(t, yaml.MapItem{Key: "chunk_encoding", Value: yaml.MapSlice{{Key: "floats", Value: g.scalar("floats")}}})
			}
			if r.Chance(50) {
				rt := g.fields(retentionF, 50)
				if r.Chance(15) {
					rt = append(rt, yaml.MapItem{Key: "percentage", Value: h.Pick(r, []float64{0, 50, 99.5})})
				}
				if rt == nil {
					rt = yaml.MapSlice{}
				}
				t = append(t, yaml.MapItem{Key: "retention", Value: rt})
			}
			if r.Chance(10) {
				t = append(t, yaml.MapItem{Key: "stale_series_compaction_threshold", Value: h.Pick(r, []float64{0, 0.5})})
			}
			if t == nil {
				t = yaml.MapSlice{}
			}
			s = append(s, yaml.MapItem{Key: "tsdb", Value: t})
		}
		if r.Chance(50) {
			e := yaml.MapSlice{}
			if r.Chance(80) {
				e = append(e, yaml.MapItem{Key: "max_exemplars", Value: h.Pick(r, []int{0, 1, 100000, -5})})
			}
			s = append(s, yaml.MapItem{Key: "exemplars", Value: e})
		}
		if s == nil {
			s = yaml.MapSlice{}
		}
		put("storage", s)
	}
	if r.Chance(8) {
		put("tracing", yaml.MapSlice{{Key: "endpoint", Value: "localhost:4317"}, {Key: "sampling_fraction", Value: h.Pick(r, []float64{0, 0.5, 1})},
			{Key: "client_type", Value: h.Pick(r, []string{"grpc", "http"})}, {Key: "timeout", Value: h.Pick(r, durPool[:10])}})
	}
	if doc == nil {
		return ""
	}
	b, err := yaml.Marshal(doc)
	if err != nil {
		panic(err)
	}
	return string(b)
}

// zeroProbes: for every generated scalar field, a minimal configuration that sets exactly that field to
// the zero value of its kind (the systematic enumeration behind finding F16), plus null sections.
func zeroProbes() []string {
	var out []string
	emit := func(doc yaml.MapSlice) {
		b, err := yaml.Marshal(doc)
		if err != nil {
			panic(err)
		}
		out = append(out, string(b))
	}
	one := func(f fld) yaml.MapSlice { return yaml.MapSlice{{Key: f.key, Value: zeroOfKind(f.kind)}} }
	for _, f := range globalF {
		emit(yaml.MapSlice{{Key: "global", Value: one(f)}})
	}
	for _, f := range scrapeF {
		emit(yaml.MapSlice{{Key: "scrape_configs", Value: []any{append(yaml.MapSlice{{Key: "job_name", Value: "j"}}, one(f)...)}}})
	}
	url := yaml.MapItem{Key: "url", Value: "http://a/b"}
	for _, f := range rwF {
		emit(yaml.MapSlice{{Key: "remote_write", Value: []any{append(yaml.MapSlice{url}, one(f)...)}}})
	}
	for _, f := range queueF {
		emit(yaml.MapSlice{{Key: "remote_write", Value: []any{yaml.MapSlice{url, {Key: "queue_config", Value: one(f)}}}}})
	}
	emit(yaml.MapSlice{{Key: "remote_write", Value: []any{yaml.MapSlice{url, {Key: "queue_config", Value: yaml.MapSlice{{Key: "min_backoff", Value: "0s"}, {Key: "max_backoff", Value: "10ms"}}}}}}})
	for _, f := range metaF {
		emit(yaml.MapSlice{{Key: "remote_write", Value: []any{yaml.MapSlice{url, {Key: "metadata_config", Value: one(f)}}}}})
	}
	emit(yaml.MapSlice{{Key: "remote_write", Value: []any{yaml.MapSlice{url, {Key: "metadata_config", Value: yaml.MapSlice{{Key: "send", Value: false}, {Key: "send_interval", Value: "0s"}, {Key: "max_samples_per_send", Value: 0}}}}}}})
	for _, f := range rrF {
		emit(yaml.MapSlice{{Key: "remote_read", Value: []any{append(yaml.MapSlice{url}, one(f)...)}}})
	}
	for _, f := range amF {
		emit(yaml.MapSlice{{Key: "alerting", Value: yaml.MapSlice{{Key: "alertmanagers", Value: []any{one(f)}}}}})
	}
	for _, f := range otlpF {
		emit(yaml.MapSlice{{Key: "otlp", Value: one(f)}})
	}
	for _, f := range tsdbF {
		emit(yaml.MapSlice{{Key: "storage", Value: yaml.MapSlice{{Key: "tsdb", Value: one(f)}}}})
	}
	for _, f := range retentionF {
		emit(yaml.MapSlice{{Key: "storage", Value: yaml.MapSlice{{Key: "tsdb", Value: yaml.MapSlice{{Key: "retention", Value: one(f)}}}}}})
	}
	emit(yaml.MapSlice{{Key: "storage", Value: yaml.MapSlice{{Key: "exemplars", Value: yaml.MapSlice{{Key: "max_exemplars", Value: 0}}}}}})
	emit(yaml.MapSlice{{Key: "runtime", Value: yaml.MapSlice{{Key: "gogc", Value: 0}}}})
	for _, k := range []string{"global", "runtime", "alerting", "storage", "otlp", "tracing", "scrape_configs", "remote_write", "rule_files"} {
		emit(yaml.MapSlice{{Key: k, Value: nil}})
	}
	emit(yaml.MapSlice{{Key: "global", Value: yaml.MapSlice{{Key: "external_labels", Value: yaml.MapSlice{{Key: "qux", Value: "foo$${TEST}"}, {Key: "a", Value: "$$"}}}}}})
	out = append(out, "")
	return out
}
