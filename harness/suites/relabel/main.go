// Suite relabel (C38): relabel.ProcessBuilder on generated label sets and VALID rule chains,
// plus a regex stream that compares the Lean capture matcher with Go's regexp on the same
// pattern class (FindStringSubmatch on the anchored pattern, SubexpNames, ExpandString).
package main

import (
	"fmt"
	"math"
	"strconv"
	"strings"

	"github.com/prometheus/common/model"

	"github.com/prometheus/prometheus/model/labels"
	"github.com/prometheus/prometheus/model/relabel"

	"verif/harness/h"
)

// ---------- rendering ----------

func listingRange(lb *labels.Builder) string {
	var parts []string
	lb.Range(func(l labels.Label) {
		parts = append(parts, h.HexS(l.Name)+":"+h.HexS(l.Value))
	})
	if len(parts) == 0 {
		return "-"
	}
	return strings.Join(parts, ",")
}

func listingLabels(ls labels.Labels) string {
	var parts []string
	ls.Range(func(l labels.Label) {
		parts = append(parts, h.HexS(l.Name)+":"+h.HexS(l.Value))
	})
	if len(parts) == 0 {
		return "-"
	}
	return strings.Join(parts, ",")
}

func hexList(xs []string) string {
	p := make([]string, len(xs))
	for i, x := range xs {
		p[i] = h.HexS(x)
	}
	return strings.Join(p, ",")
}

// ---------- op execution (shared by generation and replay) ----------

type caseState struct {
	base    labels.Labels
	cfgs    []*relabel.Config
	sb      *labels.Builder
	dropped bool
}

func parseRule(f []string) (*relabel.Config, error) {
	if len(f) != 8 {
		return nil, fmt.Errorf("bad rule arity")
	}
	cfg := &relabel.Config{Action: relabel.Action(f[0])}
	switch f[1] {
	case "l":
		cfg.NameValidationScheme = model.LegacyValidation
	case "u":
		cfg.NameValidationScheme = model.UTF8Validation
	default:
		return nil, fmt.Errorf("bad scheme")
	}
	switch f[2] {
	case "nil":
	case "none":
		cfg.SourceLabels = model.LabelNames{}
	default:
		for _, s := range strings.Split(f[2], ",") {
			cfg.SourceLabels = append(cfg.SourceLabels, model.LabelName(h.UnHex(s)))
		}
	}
	cfg.Separator = string(h.UnHex(f[3]))
	if f[4] == "D" {
		cfg.Regex = relabel.DefaultRelabelConfig.Regex
	} else {
		re, err := relabel.NewRegexp(string(h.UnHex(f[4])))
		if err != nil {
			return nil, err
		}
		cfg.Regex = re
	}
	m, err := strconv.ParseUint(f[5], 10, 64)
	if err != nil {
		return nil, err
	}
	cfg.Modulus = m
	cfg.TargetLabel = string(h.UnHex(f[6]))
	cfg.Replacement = string(h.UnHex(f[7]))
	return cfg, nil
}

func schemeOf(cfg *relabel.Config) model.ValidationScheme { return cfg.NameValidationScheme }

func runOp(c *h.Ctx, st *caseState, op string) string {
	f := strings.Fields(op)
	switch f[0] {
	case "base":
		var kv []string
		for _, x := range f[1:] {
			kv = append(kv, string(h.UnHex(x)))
		}
		st.base = labels.FromStrings(kv...)
		st.cfgs = nil
		st.sb = labels.NewBuilder(st.base)
		st.dropped = false
		return "ok " + listingRange(st.sb)
	case "rule":
		cfg, err := parseRule(f[1:])
		if err != nil {
			return "unsupported"
		}
		var verr error
		if p, v := h.Try(func() { verr = cfg.Validate(schemeOf(cfg)) }); p {
			return fmt.Sprintf("panic-validate %v", strings.ReplaceAll(fmt.Sprint(v), " ", "_"))
		}
		if verr != nil {
			c.Count("rule:invalid")
			return "invalid"
		}
		c.Count("rule:valid:" + f[1])
		st.cfgs = append(st.cfgs, cfg)
		if st.dropped {
			return "valid skip"
		}
		vals := make([]string, 0, len(cfg.SourceLabels))
		for _, ln := range cfg.SourceLabels {
			vals = append(vals, st.sb.Get(string(ln)))
		}
		val := strings.Join(vals, cfg.Separator)
		m := 0
		if cfg.Regex.MatchString(val) {
			m = 1
		}
		var keep bool
		if p, _ := h.Try(func() { keep = relabel.ProcessBuilder(st.sb, cfg) }); p {
			return "panic"
		}
		dec := "keep"
		if !keep {
			dec = "drop"
			st.dropped = true
			c.Count("step:drop")
		}
		if cfg.Action == relabel.Replace && val == "" && f[5] == "D" && !strings.Contains(cfg.TargetLabel, "$") && !strings.Contains(cfg.Replacement, "$") {
			c.Count("replace:fastpath")
		}
		return fmt.Sprintf("valid %s val=%s m=%d %s", dec, h.HexS(val), m, listingRange(st.sb))
	case "process":
		lb := labels.NewBuilder(st.base)
		var keep bool
		var res labels.Labels
		if p, _ := h.Try(func() { keep = relabel.ProcessBuilder(lb, st.cfgs...); res = lb.Labels() }); p {
			return "panic"
		}
		if keep {
			c.Count("process:keep")
			return "keep " + listingLabels(res)
		}
		c.Count("process:drop")
		return "drop"
	case "rx":
		pat, s, tmpl := string(h.UnHex(f[1])), string(h.UnHex(f[2])), string(h.UnHex(f[3]))
		re, err := relabel.NewRegexp(pat)
		if err != nil {
			return "unsupported"
		}
		sm := re.FindStringSubmatch(s)
		if sm == nil {
			c.Count("rx:nomatch")
			return "nomatch"
		}
		c.Count("rx:match")
		idx := re.FindStringSubmatchIndex(s)
		exp := string(re.ExpandString(nil, tmpl, s, idx))
		return fmt.Sprintf("match %s names=%s exp=%s", hexList(sm), hexList(re.SubexpNames()), h.HexS(exp))
	}
	return "bad-op"
}

func runCase(c *h.Ctx, ops []string) {
	st := &caseState{sb: labels.NewBuilder(labels.EmptyLabels())}
	for _, op := range ops {
		c.Op(op, runOp(c, st, op))
	}
}

// ---------- generators ----------

var nameAtoms = []string{"a", "b", "ab", "a1", "b_c", "job", "instance", "__name__", "__meta_a", "__meta_b", "__meta_ab", "meta_a", "x", "y", "A", "aB", "_", "a_b", "ba", "c"}
var utf8Names = []string{"é", "a.b", "a-b", "日", "1a", "a b"}
var valuePool = []string{"", "a", "b", "ab", "abc", "aa", "aab", "foo", "bar", "foo;bar", "a;b", "1", "12", "A", "Ab", "aB", "FOO", "éa", "É", "x→y", "a_b", "b_c", "ba", "_", "a1", "foo_bar", "c", "ca", "abab"}
var seps = []string{";", ";", ";", "", "_", ",", "a", ";;"}

func pickName(r *h.Rng) string {
	if r.Chance(8) {
		return h.Pick(r, utf8Names)
	}
	return h.Pick(r, nameAtoms)
}

func genBase(r *h.Rng) string {
	n := r.Intn(6)
	if r.Chance(5) {
		n = 6 + r.Intn(6)
	}
	seen := map[string]bool{}
	parts := []string{"base"}
	for i := 0; i < n; i++ {
		nm := pickName(r)
		if seen[nm] {
			continue
		}
		seen[nm] = true
		v := h.Pick(r, valuePool)
		if v == "" && r.Chance(70) {
			v = "v"
		}
		parts = append(parts, h.HexS(nm), h.HexS(v))
	}
	return strings.Join(parts, " ")
}

// regex generator for the class the Lean side executes exactly
var litChars = []string{"a", "b", "c", "a", "b", "o", "f", "r", "1", "_", ";", "m", "e", "t", "é", "A"}

// The generated patterns are built as small syntax trees so that matching subjects can be sampled
// from them. The body of a * / + loop is never nullable (class restriction, see Re.loopsOk on the
// Lean side).
type node struct {
	kind string // lit any cls cat alt grp ncg named star plus opt
	text string // lit: the character; cls: the class text; named: the group name
	kids []*node
	lazy bool
}

var classPool = []string{"[a-z]", "[ab]", "[^a]", "[a-c0-9_]", "[^;]", "\\w", "\\d", "[A-Z]", "\\.", "[^a-b_]"}
var classMembers = map[string][]string{"[a-z]": {"a", "b", "o", "z"}, "[ab]": {"a", "b"}, "[^a]": {"b", ";", "\n", "é"}, "[a-c0-9_]": {"a", "c", "1", "_"},
	"[^;]": {"a", "b", "_"}, "\\w": {"a", "1", "_", "A"}, "\\d": {"1", "2"}, "[A-Z]": {"A", "F"}, "\\.": {"."}, "[^a-b_]": {"c", "1", ";"}}

func (n *node) nullable() bool {
	switch n.kind {
	case "lit", "any", "cls":
		return false
	case "cat":
		for _, k := range n.kids {
			if !k.nullable() {
				return false
			}
		}
		return true
	case "alt":
		for _, k := range n.kids {
			if k.nullable() {
				return true
			}
		}
		return false
	case "grp", "ncg", "named", "plus":
		return n.kids[0].nullable()
	}
	return true // star opt
}

func (n *node) render() string {
	q := ""
	if n.lazy {
		q = "?"
	}
	switch n.kind {
	case "lit", "cls":
		return n.text
	case "any":
		return "."
	case "cat":
		var sb strings.Builder
		for _, k := range n.kids {
			sb.WriteString(k.render())
		}
		return sb.String()
	case "alt":
		p := make([]string, len(n.kids))
		for i, k := range n.kids {
			p[i] = k.render()
		}
		return strings.Join(p, "|")
	case "grp":
		return "(" + n.kids[0].render() + ")"
	case "ncg":
		return "(?:" + n.kids[0].render() + ")"
	case "named":
		return "(?P<" + n.text + ">" + n.kids[0].render() + ")"
	case "star":
		return n.kids[0].render() + "*" + q
	case "plus":
		return n.kids[0].render() + "+" + q
	case "opt":
		return n.kids[0].render() + "?" + q
	}
	return ""
}

var anyChars = []string{"a", "b", "c", "_", ";", "1", "é", "\n", "o", "A"}

// sample draws a string the pattern (usually) matches.
func (n *node) sample(r *h.Rng) string {
	switch n.kind {
	case "lit":
		return n.text
	case "any":
		return h.Pick(r, anyChars)
	case "cls":
		return h.Pick(r, classMembers[n.text])
	case "cat":
		var sb strings.Builder
		for _, k := range n.kids {
			sb.WriteString(k.sample(r))
		}
		return sb.String()
	case "alt":
		return h.Pick(r, n.kids).sample(r)
	case "grp", "ncg", "named":
		return n.kids[0].sample(r)
	case "star", "plus", "opt":
		lo, hi := 0, 2
		if n.kind == "plus" {
			lo = 1
		}
		if n.kind == "opt" {
			hi = 1
		}
		var sb strings.Builder
		for i, m := 0, int(r.Range(int64(lo), int64(hi))); i < m; i++ {
			sb.WriteString(n.kids[0].sample(r))
		}
		return sb.String()
	}
	return ""
}

func genAtom(r *h.Rng, depth int, ngroups *int) *node {
	switch k := r.Intn(12); {
	case k < 4:
		return &node{kind: "lit", text: h.Pick(r, litChars)}
	case k == 4:
		return &node{kind: "any"}
	case k == 5:
		return &node{kind: "cls", text: h.Pick(r, classPool)}
	case k < 10 && depth > 0:
		switch r.Intn(6) {
		case 0:
			return &node{kind: "ncg", kids: []*node{genAlt(r, depth-1, ngroups)}}
		case 1:
			*ngroups++
			name := h.Pick(r, []string{"n", "name", "x1", "g_"}) + strconv.Itoa(*ngroups)
			return &node{kind: "named", text: name, kids: []*node{genAlt(r, depth-1, ngroups)}}
		default:
			*ngroups++
			return &node{kind: "grp", kids: []*node{genAlt(r, depth-1, ngroups)}}
		}
	default:
		return &node{kind: "lit", text: h.Pick(r, litChars)}
	}
}

func genRep(r *h.Rng, depth int, ngroups *int) *node {
	a := genAtom(r, depth, ngroups)
	lazy := r.Chance(20)
	switch r.Intn(9) {
	case 0:
		if !a.nullable() {
			return &node{kind: "star", kids: []*node{a}, lazy: lazy}
		}
	case 1:
		if !a.nullable() {
			return &node{kind: "plus", kids: []*node{a}, lazy: lazy}
		}
	case 2:
		return &node{kind: "opt", kids: []*node{a}, lazy: lazy}
	}
	return a
}

func genCat(r *h.Rng, depth int, ngroups *int) *node {
	n := 1 + r.Intn(3)
	if r.Chance(4) {
		n = 0
	}
	c := &node{kind: "cat"}
	for i := 0; i < n; i++ {
		c.kids = append(c.kids, genRep(r, depth, ngroups))
	}
	return c
}

func genAlt(r *h.Rng, depth int, ngroups *int) *node {
	n := 1
	if r.Chance(25) {
		n = 2 + r.Intn(2)
	}
	a := &node{kind: "alt"}
	for i := 0; i < n; i++ {
		a.kids = append(a.kids, genCat(r, depth, ngroups))
	}
	return a
}

var fixedPatterns = []string{"(.*)", ".*", ".+", "", "a.*", "(.*)_(.*)", "(a|b)(.*)", "(?P<n>[a-z]+)_(.*)", "foo|bar", "(a|ab)(c|bcd)?(d*)",
	"(.+);(.+)", "(.*);(.*)", "([^;]*);?(.*)", "__meta_(.+)", "(a)|b.*", "(a?)b", "((a)|(b))*", "(a|)", "(|a)b?", "(a??)(a*)", "(.*?)(a+)(.*)", "a|ab|abc", "(ab|a)(bc|c)?", "(a+)(a*)", "(a*?)(a*)", "foo", "a", "[a-z]+", "(é|e)(.*)", "(?P<first>\\w)(?P<rest>\\w*)", "(?:(a)|b)*", "(a*)b", "(a+|b)*", "(a|b)*?c", "((a*)b)*", "(a+|b)+?", "((a)|b)+(.*)", "(a(b)?)+", "(?:(a)|(b)|c)*"}

// genPatternT returns a pattern and (for generated ones) its tree.
func genPatternT(r *h.Rng, pFixed int) (string, *node) {
	if r.Chance(pFixed) {
		return h.Pick(r, fixedPatterns), nil
	}
	ng := 0
	t := genAlt(r, 2, &ng)
	return t.render(), t
}

func genPattern(r *h.Rng) string {
	p, _ := genPatternT(r, 60)
	return p
}

// strings likely to match / nearly match
func genSubject(r *h.Rng) string {
	if r.Chance(40) {
		return h.Pick(r, valuePool)
	}
	n := r.Intn(7)
	var sb strings.Builder
	for i := 0; i < n; i++ {
		sb.WriteString(h.Pick(r, []string{"a", "b", "c", "a", "b", "a", "o", "f", "_", ";", "1", "é", "\n", "A", "m", "e", "t", "r"}))
	}
	return sb.String()
}

var tmplPieces = []string{"$1", "${1}", "$2", "${2}", "$0", "$$", "$", "${n1}", "$n1", "${name1}", "x", "_", "${1", "$1a", "$01", "a", "${1}_", "→", "$3", "${first}", "$rest", "-", "$1_", "${10}", "$123456789", "$1234567890", " ", "}", "{", "$x"}

func genTemplate(r *h.Rng) string {
	n := 1 + r.Intn(3)
	var sb strings.Builder
	for i := 0; i < n; i++ {
		sb.WriteString(h.Pick(r, tmplPieces))
	}
	return sb.String()
}

func genSrcs(r *h.Rng) string {
	n := r.Intn(4)
	if n == 0 {
		if r.Bool() {
			return "nil"
		}
		return "none"
	}
	p := make([]string, n)
	for i := range p {
		p[i] = h.HexS(pickName(r))
	}
	return strings.Join(p, ",")
}

var moduli = []uint64{1, 2, 3, 7, 10, 100, 1000, 1 << 32, 1 << 63, math.MaxUint64, math.MaxUint64 - 1, (1 << 63) + 1}

func genTarget(r *h.Rng) string {
	switch k := r.Intn(20); {
	case k < 12:
		return pickName(r)
	case k < 16:
		return h.Pick(r, []string{"${1}", "x_$1", "$1", "${1}_${2}", "a$2", "$n1", "${1}a", "$1_x", "l_${1}"})
	case k == 16:
		return genTemplate(r)
	case k == 17:
		return h.Pick(r, []string{"", "1a", "a-b", "a$", "${", "$-", "a b"})
	default:
		return h.Pick(r, nameAtoms)
	}
}

func genRule(r *h.Rng) string {
	actions := []string{"replace", "replace", "replace", "replace", "keep", "drop", "keepequal", "dropequal", "hashmod", "labelmap", "labelmap", "labeldrop", "labelkeep", "lowercase", "uppercase"}
	act := h.Pick(r, actions)
	scheme := "l"
	if r.Chance(40) {
		scheme = "u"
	}
	srcs, sep, rx, mod, target, repl := genSrcs(r), h.Pick(r, seps), "D", uint64(0), "", "$1"
	genRx := func(pDefault int) string {
		if r.Chance(pDefault) {
			return "D"
		}
		return h.HexS(genPattern(r))
	}
	wrong := r.Chance(4) // deliberately break a Validate precondition now and then
	switch act {
	case "replace":
		rx = genRx(35)
		target = genTarget(r)
		switch k := r.Intn(10); {
		case k < 4:
			repl = genTemplate(r)
		case k < 6:
			repl = "$1"
		case k < 8:
			repl = h.Pick(r, valuePool)
		case k == 8:
			repl = ""
		default:
			repl = h.Pick(r, []string{"${1}_${2}", "$2$1", "x$1y", "$1;$2"})
		}
		if r.Chance(10) {
			mod = h.Pick(r, moduli)
		}
	case "keep", "drop":
		rx = genRx(5)
		if r.Chance(20) {
			target = pickName(r)
		}
		if r.Chance(20) {
			repl = genTemplate(r)
		}
	case "keepequal", "dropequal":
		target = pickName(r)
		sep = ";"
		if wrong {
			switch r.Intn(4) {
			case 0:
				rx = h.HexS("(.*)")
			case 1:
				sep = ","
			case 2:
				repl = "x"
			default:
				mod = 3
			}
		}
	case "hashmod":
		rx = genRx(80)
		target = pickName(r)
		mod = h.Pick(r, moduli)
		if r.Chance(30) {
			mod = r.U64()
		}
		if wrong {
			mod = 0
		}
		if r.Chance(30) {
			repl = genTemplate(r)
		}
	case "labelmap":
		if r.Chance(60) {
			rx = h.HexS(h.Pick(r, []string{"__meta_(.+)", "(a)(.*)", "(.)_(.*)", "(.*)", "a(.*)", "(a)|b.*", "(.+)", "(.*)b", "([a-z])(.*)", "(?P<n>.)(.*)", "meta_(.*)|__meta_(.*)"}))
		} else {
			rx = genRx(10)
		}
		repl = h.Pick(r, []string{"$1", "${1}", "${1}_x", "x$1", "$2$1", "$1", "${1}_${2}", "a", "$0", "${0}x", "${n}", "$2", "b_c", "x_$1"})
		if r.Chance(10) {
			repl = genTemplate(r)
		}
		if r.Chance(30) {
			target = pickName(r)
		}
	case "labeldrop", "labelkeep":
		rx = genRx(3)
		srcs = "nil"
		sep = ";"
		if wrong {
			switch r.Intn(4) {
			case 0:
				srcs = "none"
			case 1:
				sep = ","
			case 2:
				repl = "x"
			default:
				target = "a"
			}
		}
	case "lowercase", "uppercase":
		rx = genRx(70)
		target = genTarget(r)
		if r.Chance(70) {
			target = pickName(r)
		}
		if wrong {
			repl = "x"
		}
	}
	return fmt.Sprintf("rule %s %s %s %s %s %d %s %s", act, scheme, srcs, h.HexS(sep), rx, mod, h.HexS(target), h.HexS(repl))
}

func main() {
	c := h.Init()
	defer c.Finish()
	if c.Replay != "" {
		for _, cs := range c.ReplayCases() {
			c.Case(strings.TrimPrefix(cs[0], "case "))
			runCase(c, cs[1:])
		}
		return
	}
	r := c.Rng
	// Stream 1: rule chains.
	for i := 0; i < c.N; i++ {
		c.Case(fmt.Sprintf("r%d", i))
		ops := []string{genBase(r)}
		n := 1 + r.Intn(5)
		if r.Chance(5) {
			n = 6 + r.Intn(6)
		}
		for k := 0; k < n; k++ {
			ops = append(ops, genRule(r))
		}
		ops = append(ops, "process")
		c.Count(fmt.Sprintf("chainlen:%d", n))
		c.NonTrivial(strings.Join(ops, ";"))
		runCase(c, ops)
	}
	// Stream 2: regex semantics (Lean matcher vs Go regexp).
	for i := 0; i < c.N; i++ {
		c.Case(fmt.Sprintf("x%d", i))
		pat, tree := genPatternT(r, 30)
		var ops []string
		m := 1 + r.Intn(4)
		for k := 0; k < m; k++ {
			subj := genSubject(r)
			if tree != nil && r.Chance(70) {
				subj = tree.sample(r)
				if r.Chance(15) { // near miss
					subj += h.Pick(r, anyChars)
				}
			}
			ops = append(ops, fmt.Sprintf("rx %s %s %s", h.HexS(pat), h.HexS(subj), h.HexS(genTemplate(r))))
		}
		c.NonTrivial(strings.Join(ops, ";"))
		runCase(c, ops)
	}
}
