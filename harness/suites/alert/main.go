// Suite alert (C44): the real rules.AlertingRule / rules.Group driven through generated evaluation
// timelines (irregular intervals, boundary-exact steps, flapping label sets, keep_firing_for, limits,
// duplicate label sets, query errors, notification selection, 'for'-state restore, reload with changed
// hold duration) with a scripted QueryFunc and a scripted Queryable.
//
// ops (tokens separated by one space; times/durations are int64 nanoseconds):
//
//	rule <hold> <kff> <restored 0|1> <ruleLabels>
//	eval <ts> <queryOffset> <limit> <ok|qerr> <vec>          vec = '-' | lbls@<float bits hex16>;…
//	send <ts> <resendDelay> <interval>
//	restore <ts> <outageTolerance> <grace> <series>          series = '-' | lbls@<t ms>@<v secs>@<n|s>;…  (s = stale marker)
//	reload <hold> <kff> <restored 0|1>                       new rule + Group.CopyState
//
// lbls = '-' | k=v,k=v (sorted by name)
//
// outputs:
//
//	rule    -> ok
//	eval    -> <none|dup|query|limit:<n>> <vec> <alerts>     vec entries lbls@<T ms>@<F>, alerts entries
//	           lbls/state/valuebits/activeAt/firedAt/resolvedAt/keepFiringSince/lastSentAt/validUntil ('z' = zero time)
//	send    -> <sent alerts> <alerts>
//	restore -> <restored 0|1> <alerts>
//	reload  -> <alerts>
package main

import (
	"context"
	"errors"
	"fmt"
	"math"
	"sort"
	"strconv"
	"strings"
	"time"

	"github.com/prometheus/common/promslog"

	"github.com/prometheus/prometheus/model/histogram"
	"github.com/prometheus/prometheus/model/labels"
	"github.com/prometheus/prometheus/model/value"
	"github.com/prometheus/prometheus/promql"
	"github.com/prometheus/prometheus/promql/parser"
	"github.com/prometheus/prometheus/rules"
	"github.com/prometheus/prometheus/storage"
	"github.com/prometheus/prometheus/tsdb/chunkenc"
	"github.com/prometheus/prometheus/tsdb/chunks"
	"github.com/prometheus/prometheus/util/annotations"

	"verif/harness/h"
)

const ruleName = "A"

var expr parser.Expr

func init() {
	var err error
	expr, err = parser.NewParser(parser.Options{}).ParseExpr("up")
	if err != nil {
		panic(err)
	}
}

// ---------------------------------------------------------------- codec

func parseLabels(s string) labels.Labels {
	if s == "-" {
		return labels.EmptyLabels()
	}
	var kv []string
	for _, p := range strings.Split(s, ",") {
		i := strings.IndexByte(p, '=')
		kv = append(kv, p[:i], p[i+1:])
	}
	return labels.FromStrings(kv...)
}

func showLabels(l labels.Labels) string {
	var parts []string
	l.Range(func(x labels.Label) { parts = append(parts, x.Name+"="+x.Value) })
	if len(parts) == 0 {
		return "-"
	}
	return strings.Join(parts, ",")
}

func showTime(t time.Time) string {
	if t.IsZero() {
		return "z"
	}
	return strconv.FormatInt(t.UnixNano(), 10)
}

func showF(f float64) string {
	if f == math.Trunc(f) && math.Abs(f) < 1<<53 && !(f == 0 && math.Signbit(f)) {
		return "i" + strconv.FormatInt(int64(f), 10)
	}
	return fmt.Sprintf("x%016x", math.Float64bits(f))
}

func joinSorted(xs []string) string {
	if len(xs) == 0 {
		return "-"
	}
	sort.Strings(xs)
	return strings.Join(xs, ";")
}

func showAlert(a *rules.Alert) string {
	return fmt.Sprintf("%s/%s/%016x/%s/%s/%s/%s/%s/%s", showLabels(a.Labels), a.State.String(), math.Float64bits(a.Value),
		showTime(a.ActiveAt), showTime(a.FiredAt), showTime(a.ResolvedAt), showTime(a.KeepFiringSince), showTime(a.LastSentAt), showTime(a.ValidUntil))
}

func showAlerts(r *rules.AlertingRule) string {
	var xs []string
	r.ForEachActiveAlert(func(a *rules.Alert) { xs = append(xs, showAlert(a)) })
	return joinSorted(xs)
}

func i64(s string) int64 {
	v, err := strconv.ParseInt(s, 10, 64)
	if err != nil {
		panic(err)
	}
	return v
}

// ---------------------------------------------------------------- scripted storage for restore

type fsample struct {
	t int64
	f float64
}

func (s fsample) T() int64                      { return s.t }
func (s fsample) ST() int64                     { return 0 }
func (s fsample) F() float64                    { return s.f }
func (s fsample) H() *histogram.Histogram       { return nil }
func (s fsample) FH() *histogram.FloatHistogram { return nil }
func (s fsample) Type() chunkenc.ValueType      { return chunkenc.ValFloat }
func (s fsample) Copy() chunks.Sample           { return s }

type fseries struct {
	lset labels.Labels
	smp  fsample
}

type fakeQueryable struct{ series []fseries }

func (q *fakeQueryable) Querier(mint, maxt int64) (storage.Querier, error) {
	return &storage.MockQuerier{SelectMockFunction: func(_ bool, _ *storage.SelectHints, ms ...*labels.Matcher) storage.SeriesSet {
		var out []storage.Series
		for _, s := range q.series {
			if s.smp.t < mint || s.smp.t > maxt {
				continue // a real querier only returns series with samples inside [mint, maxt]
			}
			ok := true
			for _, m := range ms {
				if !m.Matches(s.lset.Get(m.Name)) {
					ok = false
				}
			}
			if ok {
				out = append(out, storage.NewListSeries(s.lset, []chunks.Sample{s.smp}))
			}
		}
		return &listSet{series: out, i: -1}
	}}, nil
}

type listSet struct {
	series []storage.Series
	i      int
}

func (s *listSet) Next() bool                  { s.i++; return s.i < len(s.series) }
func (s *listSet) At() storage.Series          { return s.series[s.i] }
func (*listSet) Err() error                    { return nil }
func (*listSet) Warnings() annotations.Annotations { return nil }

// ---------------------------------------------------------------- running a case

type world struct {
	rule   *rules.AlertingRule
	rlbls  labels.Labels
	hold   int64
	kff    int64
	group  *rules.Group
	interv time.Duration
}

var errScripted = errors.New("scripted query error")

func newRule(hold, kff int64, restored bool, rl labels.Labels) *rules.AlertingRule {
	return rules.NewAlertingRule(ruleName, expr, time.Duration(hold), time.Duration(kff), rl, labels.EmptyLabels(), labels.EmptyLabels(), "", restored, promslog.NewNopLogger())
}

func newGroup(r *rules.AlertingRule, opts *rules.ManagerOptions) *rules.Group {
	if opts == nil {
		opts = &rules.ManagerOptions{}
	}
	opts.Context = context.Background()
	opts.Logger = promslog.NewNopLogger()
	opts.Metrics = sharedMetrics
	return rules.NewGroup(rules.GroupOptions{Name: "g", File: "f", Interval: time.Minute, Rules: []rules.Rule{r}, ShouldRestore: true, Opts: opts})
}

var sharedMetrics = rules.NewGroupMetrics(nil)

func runOp(c *h.Ctx, w *world, op string) string {
	f := strings.Split(op, " ")
	ctx := context.Background()
	switch f[0] {
	case "rule":
		w.hold, w.kff = i64(f[1]), i64(f[2])
		w.rlbls = parseLabels(f[4])
		w.rule = newRule(w.hold, w.kff, f[3] == "1", w.rlbls)
		return "ok"
	case "eval":
		ts, qoff, limit := i64(f[1]), i64(f[2]), int(i64(f[3]))
		var vec promql.Vector
		if f[5] != "-" {
			for _, s := range strings.Split(f[5], ";") {
				p := strings.Split(s, "@")
				bits, err := strconv.ParseUint(p[1], 16, 64)
				if err != nil {
					panic(err)
				}
				vec = append(vec, promql.Sample{Metric: parseLabels(p[0]), T: ts / 1e6, F: math.Float64frombits(bits)})
			}
		}
		var gotT time.Time
		qf := func(_ context.Context, _ string, t time.Time) (promql.Vector, error) {
			gotT = t
			if f[4] == "qerr" {
				return nil, errScripted
			}
			return vec, nil
		}
		res, err := w.rule.Eval(ctx, time.Duration(qoff), time.Unix(0, ts), qf, nil, limit)
		if gotT.UnixNano() != ts-qoff {
			return fmt.Sprintf("bad-query-time %d", gotT.UnixNano())
		}
		e := "none"
		switch {
		case err == nil:
		case errors.Is(err, rules.ErrDuplicateAlertLabelSet):
			e = "dup"
		case errors.Is(err, errScripted):
			e = "query"
		case strings.HasPrefix(err.Error(), "exceeded limit of "+strconv.Itoa(limit)+" with "):
			e = "limit:" + strings.TrimSuffix(strings.TrimPrefix(err.Error(), "exceeded limit of "+strconv.Itoa(limit)+" with "), " alerts")
		default:
			e = "other"
		}
		c.Count("eval:err=" + strings.SplitN(e, ":", 2)[0])
		var vs []string
		for _, s := range res {
			if s.H != nil {
				vs = append(vs, "histogram")
				continue
			}
			vs = append(vs, fmt.Sprintf("%s@%d@%s", showLabels(s.Metric), s.T, showF(s.F)))
		}
		return e + " " + joinSorted(vs) + " " + showAlerts(w.rule)
	case "send":
		ts, resend, interval := i64(f[1]), i64(f[2]), i64(f[3])
		var sent []string
		w.rule.VerifSendAlerts(ctx, time.Unix(0, ts), time.Duration(resend), time.Duration(interval), func(_ context.Context, _ string, alerts ...*rules.Alert) {
			for _, a := range alerts {
				sent = append(sent, showAlert(a))
			}
		})
		c.Stats["send:alerts"] += len(sent)
		return joinSorted(sent) + " " + showAlerts(w.rule)
	case "restore":
		ts, tol, grace := i64(f[1]), i64(f[2]), i64(f[3])
		q := &fakeQueryable{}
		if f[4] != "-" {
			for _, s := range strings.Split(f[4], ";") {
				p := strings.Split(s, "@")
				v := float64(i64(p[2]))
				if p[3] == "s" {
					v = math.Float64frombits(value.StaleNaN)
				}
				q.series = append(q.series, fseries{lset: parseLabels(p[0]), smp: fsample{t: i64(p[1]), f: v}})
			}
		}
		g := newGroup(w.rule, &rules.ManagerOptions{Queryable: q, OutageTolerance: time.Duration(tol), ForGracePeriod: time.Duration(grace)})
		g.RestoreForState(time.Unix(0, ts))
		r := "0"
		if w.rule.Restored() {
			r = "1"
		}
		return r + " " + showAlerts(w.rule)
	case "reload":
		hold, kff := i64(f[1]), i64(f[2])
		nr := newRule(hold, kff, f[3] == "1", w.rlbls)
		og := newGroup(w.rule, nil)
		ng := newGroup(nr, nil)
		ng.CopyState(og)
		w.rule, w.hold, w.kff = nr, hold, kff
		return showAlerts(w.rule)
	}
	return "bad-op"
}

func runCase(c *h.Ctx, ops []string) {
	w := &world{}
	for _, op := range ops {
		var out string
		if p, v := h.Try(func() { out = runOp(c, w, op) }); p {
			out = fmt.Sprintf("panic %s", strings.ReplaceAll(strings.ReplaceAll(fmt.Sprint(v), "\n", " "), "\t", " "))
			c.Count("out:panic")
		}
		c.Op(op, out)
	}
}

// ---------------------------------------------------------------- generator

const (
	sec       = int64(1e9)
	retention = 15 * 60 * sec
)

var (
	holds      = []int64{0, 0, 1, sec, 5 * sec, 5 * sec, 60 * sec, 300 * sec, 1500 * 1e6}
	kffs       = []int64{0, 0, 0, 1, 5 * sec, 60 * sec, 60 * sec, retention, retention + sec}
	ruleLabels = []string{"-", "-", "sev=page", "sev=page", "job=x", "job=", "alertname=zz,sev=w", "__name__=q", "inst=,job="}
	universe   = []string{
		"__name__=m,inst=0,job=a", "__name__=m,inst=1,job=a", "__name__=m,inst=0,job=b", "__name__=m,inst=2,job=b",
		"__name__=n,inst=0,job=a", "inst=3", "-", "__name__=m,inst=1,job=a,sev=low", "__name__=m,job=a",
	}
	valueBits = []uint64{0x3ff0000000000000, 0x4000000000000000, 0, 0x8000000000000000, 0x7ff8000000000001, 0x7ff0000000000000, 0x4059000000000000}
	bases     = []int64{1700000000 * sec, 1700000000*sec + 123456789, 1000 * sec, 0, -5 * sec, -7*sec - 1, 4000000000 * sec}
)

func genCase(c *h.Ctx, r *h.Rng, big bool) []string {
	hold, kff := h.PickI64(r, holds), h.PickI64(r, kffs)
	rl := h.Pick(r, ruleLabels)
	restored := r.Chance(75)
	ops := []string{fmt.Sprintf("rule %d %d %d %s", hold, kff, b2i(restored), rl)}
	w := &world{}
	runOp(c, w, ops[0]) // shadow world used only to aim the generator (restore series, boundary targets)
	// series pool
	np := 1 + r.Intn(4)
	var pool []string
	for len(pool) < np {
		s := h.Pick(r, universe)
		dup := false
		for _, p := range pool {
			if p == s {
				dup = true
			}
		}
		if !dup {
			pool = append(pool, s)
		}
	}
	present := make([]bool, np)
	flip := []int{10, 25, 50}[r.Intn(3)]
	for i := range present {
		present[i] = r.Chance(60)
	}
	n := 3 + r.Intn(12)
	if big {
		n = 10 + r.Intn(25)
	}
	ts := h.PickI64(r, bases)
	resend := h.PickI64(r, []int64{0, sec, 60 * sec, 60 * sec})
	interval := h.PickI64(r, []int64{15 * sec, 60 * sec})
	limit := 0
	if r.Chance(15) {
		limit = 1 + r.Intn(3)
	}
	qoff := int64(0)
	if r.Chance(20) {
		qoff = h.PickI64(r, []int64{sec, 1500000, -sec, 999999, 60 * sec})
	}
	var targets []int64
	addTargets := func(t int64) {
		for _, d := range []int64{hold, kff, retention} {
			if d > 1 && r.Chance(60) {
				targets = append(targets, t+d-1, t+d, t+d+1)
			}
		}
		if len(targets) > 24 {
			targets = targets[len(targets)-24:]
		}
	}
	restoreAt := -1
	if !restored && r.Chance(85) {
		restoreAt = 1 + r.Intn(2)
	}
	steps := []int64{1, 1e6, sec, sec, 15 * sec, 15 * sec, 60 * sec, hold, hold - 1, hold + 1, hold / 2, kff, kff - 1, kff + 1, retention, retention - 1, retention + 1, retention / 2, 7 * sec}
	for k := 0; k < n; k++ {
		// next timestamp
		if k > 0 {
			switch x := r.Intn(100); {
			case x < 35 && len(targets) > 0:
				best := int64(math.MaxInt64)
				for _, t := range targets {
					if t > ts && t < best {
						best = t
					}
				}
				if best != math.MaxInt64 {
					ts = best
				} else {
					ts += sec
				}
			case x < 43:
				// same timestamp again
			case x < 46:
				ts -= h.PickI64(r, []int64{1, sec, hold, 20 * sec})
				c.Count("gen:time-backwards")
			default:
				d := h.PickI64(r, steps)
				if d < 0 {
					d = 0
				}
				ts += d
			}
		}
		// result vector
		var vs []string
		for i := range pool {
			if r.Chance(flip) {
				present[i] = !present[i]
			}
			if present[i] {
				vs = append(vs, fmt.Sprintf("%s@%016x", pool[i], valueBits[r.Intn(len(valueBits))]))
			}
		}
		if r.Chance(3) && len(vs) > 0 { // literal duplicate
			vs = append(vs, vs[0])
		}
		r0 := r.Intn(len(vs) + 1) // rotate: order of the vector must not matter
		vs = append(vs[r0:], vs[:r0]...)
		vec := "-"
		if len(vs) > 0 {
			vec = strings.Join(vs, ";")
		}
		q := "ok"
		if r.Chance(4) {
			q = "qerr"
		}
		op := fmt.Sprintf("eval %d %d %d %s %s", ts, qoff, limit, q, vec)
		ops = append(ops, op)
		out := runOp(c, w, op)
		addTargets(ts)
		if strings.HasPrefix(out, "none") && r.Chance(70) {
			sts := ts
			if r.Chance(10) {
				sts += h.PickI64(r, []int64{1, sec, resend})
			}
			op := fmt.Sprintf("send %d %d %d", sts, resend, interval)
			ops = append(ops, op)
			runOp(c, w, op)
		}
		if k == restoreAt {
			op := genRestore(r, w, ts, hold)
			ops = append(ops, op)
			runOp(c, w, op)
			c.Count("gen:restore")
		}
		if r.Chance(6) {
			nh, nk := hold, kff
			if r.Chance(80) {
				nh = h.PickI64(r, holds)
			}
			if r.Chance(40) {
				nk = h.PickI64(r, kffs)
			}
			op := fmt.Sprintf("reload %d %d %d", nh, nk, b2i(r.Chance(85) || w.rule.Restored()))
			ops = append(ops, op)
			runOp(c, w, op)
			hold, kff = nh, nk
			c.Count("gen:reload")
		}
	}
	return ops
}

func genRestore(r *h.Rng, w *world, evalTs, hold int64) string {
	ts := evalTs + h.PickI64(r, []int64{0, sec, 3*sec + 5, 250 * 1e6, 59 * sec})
	tol := h.PickI64(r, []int64{3600 * sec, 3600 * sec, 60 * sec, 0})
	grace := h.PickI64(r, []int64{0, 10 * sec, 600 * sec, hold, hold + 1, hold - 1, 2 * sec})
	if grace < 0 {
		grace = 0
	}
	var series []string
	w.rule.ForEachActiveAlert(func(a *rules.Alert) {
		if r.Chance(15) {
			return
		}
		b := labels.NewBuilder(a.Labels)
		b.Set("__name__", "ALERTS_FOR_STATE")
		switch r.Intn(12) {
		case 0:
			b.Set("extra", "1")
		case 1:
			b.Set("alertname", "B")
		case 2:
			b.Set("__name__", "ALERTS")
		}
		down := h.PickI64(r, []int64{0, sec, 5 * sec, 30 * sec, 30*sec + 500*1e6, tol - sec, tol, tol + 1e6, tol + sec, 600 * sec, 999 * 1e6})
		if down < 0 {
			down = 0
		}
		tms := floorDiv(ts-down, 1e6)
		holdS := hold / sec
		graceS := grace / sec
		spent := h.PickI64(r, []int64{0, 1, 2, holdS - 1, holdS, holdS + 1, holdS - graceS, holdS - graceS - 1, holdS - graceS + 1, holdS / 2, -3, 10})
		v := tms/1000 - spent
		st := "n"
		if r.Chance(8) {
			st = "s"
		}
		series = append(series, fmt.Sprintf("%s@%d@%d@%s", showLabels(b.Labels()), tms, v, st))
	})
	if r.Chance(10) {
		series = append(series, fmt.Sprintf("__name__=ALERTS_FOR_STATE,alertname=A,zz=1@%d@%d@n", floorDiv(ts, 1e6), floorDiv(ts, 1e9)-5))
	}
	// unique label sets only (a storage cannot hold two series with the same labels)
	seen := map[string]bool{}
	var uniq []string
	for _, s := range series {
		k := s[:strings.IndexByte(s, '@')]
		if !seen[k] {
			seen[k] = true
			uniq = append(uniq, s)
		}
	}
	ss := "-"
	if len(uniq) > 0 {
		ss = strings.Join(uniq, ";")
	}
	return fmt.Sprintf("restore %d %d %d %s", ts, tol, grace, ss)
}

func floorDiv(a, b int64) int64 {
	q := a / b
	if (a%b != 0) && ((a < 0) != (b < 0)) {
		q--
	}
	return q
}

func b2i(b bool) int {
	if b {
		return 1
	}
	return 0
}

// classify records distribution facts about one executed case from its op/out pairs.
func classify(c *h.Ctx, ops, outs []string) {
	nt := false
	for i, o := range outs {
		for _, st := range []string{"/pending/", "/firing/", "/inactive/"} {
			if strings.Contains(o, st) {
				c.Count("state" + strings.TrimSuffix(st, "/"))
			}
		}
		if strings.Contains(o, "/firing/") || strings.Contains(o, "/inactive/") {
			nt = true
		}
		f := strings.Split(ops[i], " ")
		if f[0] != "eval" {
			continue
		}
		ts := i64(f[1])
		p := strings.Split(o, " ")
		if len(p) < 3 || p[2] == "-" {
			continue
		}
		for _, a := range strings.Split(p[2], ";") {
			x := strings.Split(a, "/")
			if len(x) < 9 {
				continue
			}
			if x[6] != "z" {
				c.Count("eval:keep-firing-active")
			}
			if x[1] == "firing" && x[4] == strconv.FormatInt(ts, 10) && x[3] != x[4] {
				c.Count("eval:fired-now")
			}
			if x[1] == "inactive" && x[5] == strconv.FormatInt(ts, 10) {
				c.Count("eval:resolved-now")
			}
		}
	}
	if nt {
		c.NonTrivial(strings.Join(ops, "|"))
	}
}

func main() {
	c := h.Init()
	defer c.Finish()
	if c.Replay != "" {
		for _, cs := range c.ReplayCases() {
			c.Case(strings.TrimPrefix(cs[0], "case "))
			runCase(c, cs[1:])
		}
		return
	}
	for i := 0; i < c.N; i++ {
		r := c.Rng.Fork()
		big := c.Tier == "thorough" && i%4 == 0
		scratch := &h.Ctx{Stats: map[string]int{}, NonTriv: map[string]struct{}{}}
		ops := genCase(scratch, r, big)
		for k, v := range scratch.Stats {
			if strings.HasPrefix(k, "gen:") {
				c.Stats[k] += v
			}
		}
		c.Case(fmt.Sprintf("t%d", i))
		w := &world{}
		var outs []string
		for _, op := range ops {
			var out string
			if p, v := h.Try(func() { out = runOp(c, w, op) }); p {
				out = fmt.Sprintf("panic %s", strings.ReplaceAll(strings.ReplaceAll(fmt.Sprint(v), "\n", " "), "\t", " "))
				c.Count("out:panic")
			}
			outs = append(outs, out)
			c.Op(op, out)
			c.Count("op:" + strings.SplitN(op, " ", 2)[0])
		}
		classify(c, ops, outs)
	}
}
