// Suite promqlrate (C30): rate / increase / delta / irate / idelta / resets / changes evaluated by the
// real PromQL engine over a real TSDB head (ST storage on, XOR2 chunks), one series per case.
//
// ops:  s <t_ms> <value f64 hex> <st_ms>                         append one sample (AppenderV2, with start timestamp)
//       q <fn> <range_ms> <offset_ms> <eval_ts_ms> <useST 0|1>   instant query  fn(m{c="<case>"}[range] offset o) @ ts
//         (written back as `q ... obs=v:<hex>|obs=none [exact]`: the observed value travels in the op line so that the
//          model can answer up to the documented rounding tolerance; -x exact=1 demands bit-for-bit equality)
// out:  s -> ok | err
//       q -> none w=<0|1> | v <f64 hex> w=<0|1> | multi | err     (w = start-time-overlap warning present)
package main

import (
	"context"
	"errors"
	"fmt"
	"math"
	"os"
	"strconv"
	"strings"
	"time"

	"github.com/prometheus/prometheus/model/labels"
	"github.com/prometheus/prometheus/promql"
	"github.com/prometheus/prometheus/promql/parser"
	"github.com/prometheus/prometheus/storage"
	"github.com/prometheus/prometheus/tsdb"
	"github.com/prometheus/prometheus/tsdb/chunkenc"
	"github.com/prometheus/prometheus/util/annotations"
	"github.com/prometheus/prometheus/util/teststorage"

	"verif/harness/h"
)

type env struct {
	st     *teststorage.TestStorage
	engST  *promql.Engine
	engNo  *promql.Engine
	serial int
}

func newEnv() *env {
	st, err := teststorage.NewWithError(func(opt *tsdb.Options) {
		opt.EnableSTStorage = true
		opt.FloatChunkEncoding = chunkenc.EncXOR2
		opt.EnableHistogramSTEncoding = true
		opt.WALSegmentSize = -1
		opt.EnableExemplarStorage = false
	})
	if err != nil {
		fmt.Fprintln(os.Stderr, "harness error:", err)
		os.Exit(3)
	}
	st.DisableCompactions()
	mk := func(useST bool) *promql.Engine {
		return promql.NewEngine(promql.EngineOpts{
			MaxSamples:               1000000,
			Timeout:                  100 * time.Second,
			NoStepSubqueryIntervalFn: func(int64) int64 { return 60000 },
			EnableAtModifier:         true,
			EnableNegativeOffset:     true,
			LookbackDelta:            5 * time.Minute,
			UseStartTimestamps:       useST,
			Parser:                   parser.NewParser(parser.Options{}),
		})
	}
	e := &env{st: st, engST: mk(true), engNo: mk(false)}
	// Pin the head's time origin so that every later timestamp (all within a few hours) is appendable.
	app := st.AppenderV2(context.Background())
	if _, err := app.Append(0, labels.FromStrings("__name__", "origin"), 0, 1, 0, nil, nil, storage.AOptions{}); err != nil {
		fmt.Fprintln(os.Stderr, "harness error:", err)
		os.Exit(3)
	}
	if err := app.Commit(); err != nil {
		fmt.Fprintln(os.Stderr, "harness error:", err)
		os.Exit(3)
	}
	return e
}

func durStr(ms int64) string { return strconv.FormatInt(ms, 10) + "ms" }

func (e *env) runCase(c *h.Ctx, ops []string) {
	e.serial++
	id := strconv.Itoa(e.serial)
	lbl := labels.FromStrings("__name__", "m", "c", id)
	for _, op := range ops {
		f := strings.Fields(op)
		if len(f) == 0 {
			c.Op(op, "bad-op")
			continue
		}
		switch {
		case f[0] == "s" && len(f) == 4:
			t, e1 := strconv.ParseInt(f[1], 10, 64)
			bits, e2 := strconv.ParseUint(f[2], 16, 64)
			st, e3 := strconv.ParseInt(f[3], 10, 64)
			if e1 != nil || e2 != nil || e3 != nil {
				c.Op(op, "bad-op")
				continue
			}
			out := "ok"
			app := e.st.AppenderV2(context.Background())
			if _, err := app.Append(0, lbl, st, t, math.Float64frombits(bits), nil, nil, storage.AOptions{}); err != nil {
				_ = app.Rollback()
				out = "err"
			} else if err := app.Commit(); err != nil {
				out = "err"
			}
			c.Op(op, out)
		case f[0] == "q" && len(f) >= 6:
			rng, e1 := strconv.ParseInt(f[2], 10, 64)
			off, e2 := strconv.ParseInt(f[3], 10, 64)
			ts, e3 := strconv.ParseInt(f[4], 10, 64)
			if e1 != nil || e2 != nil || e3 != nil {
				c.Op(op, "bad-op")
				continue
			}
			qs := fmt.Sprintf(`%s(m{c="%s"}[%s]`, f[1], id, durStr(rng))
			if off != 0 {
				qs += " offset " + durStr(off)
			}
			qs += ")"
			eng := e.engNo
			if f[5] == "1" {
				eng = e.engST
			}
			var out string
			if p, v := h.Try(func() { out = e.query(eng, qs, ts) }); p {
				out = "panic"
				_ = v
			}
			c.Count("fn:" + f[1])
			of := strings.Fields(out)
			c.Count("out:" + of[0])
			// the op line records the observation (see renderTol in RateSuite.lean); replays re-observe
			obs := "obs=none"
			if of[0] == "v" && len(of) > 1 {
				obs = "obs=v:" + of[1]
			}
			op = strings.Join(f[:6], " ") + " " + obs
			if c.Extra["exact"] == "1" {
				op += " exact"
			}
			c.Op(op, out)
		default:
			c.Op(op, "bad-op")
		}
	}
}

func (e *env) query(eng *promql.Engine, qs string, ts int64) string {
	q, err := eng.NewInstantQuery(context.Background(), e.st, nil, qs, time.UnixMilli(ts))
	if err != nil {
		return "err"
	}
	defer q.Close()
	res := q.Exec(context.Background())
	if res.Err != nil {
		return "err"
	}
	vec, err := res.Vector()
	if err != nil {
		return "err"
	}
	w := 0
	for _, a := range res.Warnings {
		if errors.Is(a, annotations.StartTimeOverlapWarning) {
			w = 1
		}
	}
	switch len(vec) {
	case 0:
		return fmt.Sprintf("none w=%d", w)
	case 1:
		if vec[0].H != nil {
			return "hist"
		}
		bits := math.Float64bits(vec[0].F)
		if bits == 1<<63 {
			bits = 0 // -0 is printed as +0 (the rational model has one zero)
		}
		return fmt.Sprintf("v %016x w=%d", bits, w)
	default:
		return "multi"
	}
}

// ---------------------------------------------------------------- generator

type smp struct {
	t  int64
	v  float64
	st int64
}

var fns = []string{"rate", "increase", "delta", "irate", "idelta", "resets", "changes"}

// dyadic value k/2^j, |k| < 2^20: sums of a few dozen of them are exact in binary64.
func dyadic(r *h.Rng, nonneg bool) float64 {
	k := r.Range(0, 1<<uint(r.Range(1, 20)))
	j := 0
	if r.Chance(40) {
		j = int(r.Range(1, 10))
	}
	v := float64(k) / float64(int64(1)<<uint(j))
	if !nonneg && r.Bool() {
		v = -v
	}
	return v
}

func genSeries(c *h.Ctx, r *h.Rng) ([]smp, bool) {
	n := 0
	switch x := r.Intn(100); {
	case x < 3:
		n = 0
	case x < 8:
		n = 1
	case x < 20:
		n = 2
	case x < 35:
		n = 3
	default:
		n = int(r.Range(4, 14))
	}
	step := h.PickI64(r, []int64{1, 2, 3, 7, 10, 1000, 1000, 5000, 10000, 10000, 15000, 30000, 60000, 12345})
	t := r.Range(3_600_000, 3_700_000)
	if r.Chance(30) {
		t = t / step * step
	}
	kind := r.Intn(6) // 0,1 counter; 2 counter with frequent resets; 3 gauge; 4 constant/equal-heavy; 5 specials
	c.Count(fmt.Sprintf("series:kind%d", kind))
	stMode := r.Intn(6) // 0,1 absent; 2 constant; 3 delta-style (st = prev t); 4 resets; 5 wild
	c.Count(fmt.Sprintf("series:st%d", stMode))
	var out []smp
	v := 0.0
	if kind <= 2 {
		v = dyadic(r, true)
		if r.Chance(30) {
			v = float64(r.Range(0, 3))
		}
	} else {
		v = dyadic(r, false)
	}
	constST := t - r.Range(1, 3*step+5)
	curST := constST
	for i := 0; i < n; i++ {
		if i > 0 {
			switch x := r.Intn(100); {
			case x < 60:
				t += step
			case x < 70:
				t += step + r.Range(-step/10, step/10)
			case x < 80:
				t += 2 * step
			case x < 85:
				t += 3*step + r.Range(0, step)
			case x < 90:
				t++
			default:
				t += r.Range(1, 2*step)
			}
			if t <= out[i-1].t {
				t = out[i-1].t + 1
			}
			reset := false
			switch kind {
			case 0, 1, 2:
				pr := 8
				if kind == 2 {
					pr = 35
				}
				if i == 1 || i == n-1 {
					pr += 15
				}
				switch {
				case r.Chance(pr):
					reset = true
					nv := dyadic(r, true)
					if r.Chance(30) {
						nv = 0
					}
					for nv >= v && nv > 0 {
						nv = math.Floor(nv / 2)
					}
					if nv >= v {
						reset = false
					}
					v = nv
				case r.Chance(20):
					// equal value
				default:
					v += dyadic(r, true)
				}
			case 3:
				v = dyadic(r, false)
			case 4:
				if r.Chance(25) {
					v = dyadic(r, false)
				}
			case 5:
				switch x := r.Intn(10); {
				case x < 2:
					v = math.NaN()
				case x < 3:
					v = math.Float64frombits(0x7ff8000000000123)
				case x < 4:
					v = math.Inf(1)
				case x < 5:
					v = math.Inf(-1)
				case x < 6:
					v = math.Copysign(0, -1)
				default:
					v = dyadic(r, false)
				}
			}
			if reset && stMode >= 3 {
				curST = out[i-1].t + r.Range(0, t-out[i-1].t)
			}
		}
		s := smp{t: t, v: v}
		switch stMode {
		case 0, 1:
			s.st = 0
		case 2:
			s.st = constST
		case 3:
			if i == 0 {
				s.st = t - step
			} else {
				s.st = out[i-1].t
				if r.Chance(15) {
					s.st = out[i-1].t + 1
				}
				if r.Chance(10) {
					s.st = out[i-1].t - 1
				}
			}
		case 4:
			s.st = curST
			if r.Chance(10) {
				s.st = 0
			}
		case 5:
			switch x := r.Intn(9); {
			case x == 0:
				s.st = 0
			case x == 1:
				s.st = t
			case x == 2:
				s.st = t + 1
			case x == 3:
				s.st = t - 1
			case x == 4 && i > 0:
				s.st = out[i-1].t
			case x == 5 && i > 0:
				s.st = out[i-1].st
			case x == 6 && i > 0:
				s.st = out[i-1].t - r.Range(1, step)
			case x == 7 && i > 0:
				s.st = out[i-1].t + r.Range(0, t-out[i-1].t)
			default:
				s.st = t - r.Range(0, 2*step)
			}
		}
		if s.st < 0 {
			s.st = 0
		}
		out = append(out, s)
	}
	return out, kind == 5
}

// near returns a duration close to x: exactly x, x±1, or x±small.
func near(r *h.Rng, x int64) int64 {
	switch r.Intn(6) {
	case 0:
		return x
	case 1:
		return x + 1
	case 2:
		return x - 1
	case 3:
		return x + r.Range(-3, 3)
	case 4:
		return x + r.Range(-x/20-1, x/20+1)
	default:
		return x
	}
}

func genQuery(c *h.Ctx, r *h.Rng, ss []smp, special bool) string {
	fn := h.Pick(r, fns)
	if special {
		// series with NaN/±Inf/-0 values: only the comparison-only functions are modelled
		fn = h.Pick(r, []string{"resets", "changes"})
	}
	useST := 0
	if r.Chance(60) {
		useST = 1
	}
	var rs, re int64 // window (rs, re]
	if len(ss) == 0 || r.Chance(8) {
		re = r.Range(3_500_000, 3_900_000)
		rs = re - r.Range(1, 300_000)
	} else {
		i := r.Intn(len(ss))
		j := i + r.Intn(len(ss)-i)
		if r.Chance(50) {
			j = len(ss) - 1
		}
		if r.Chance(35) {
			i = 0
		}
		ti, tj := ss[i].t, ss[j].t
		avg := int64(1000)
		if j > i {
			avg = (tj - ti) / int64(j-i)
		}
		thr := (tj - ti) * 11 / (10 * int64(max(j-i, 1)))
		pick := func() int64 {
			switch x := r.Intn(100); {
			case x < 12:
				return 0 // sample exactly on the edge
			case x < 22:
				return 1
			case x < 45:
				return near(r, thr)
			case x < 55:
				return near(r, avg/2)
			case x < 65:
				return near(r, avg)
			case x < 80:
				return r.Range(0, thr+2)
			default:
				return r.Range(0, 4*avg+10)
			}
		}
		dS, dE := pick(), pick()
		if dS < 0 {
			dS = 0
		}
		if dE < 0 {
			dE = 0
		}
		// left-open: the first sample is inside iff rs < ti; dS = 0 puts it exactly on the (excluded) edge.
		rs, re = ti-dS, tj+dE
		if r.Chance(10) && i > 0 {
			rs = ss[i-1].t // previous sample exactly on the excluded edge
		}
		if dS == 0 {
			c.Count("q:first-on-open-edge")
		}
		if dE == 0 {
			c.Count("q:last-on-closed-edge")
		}
	}
	if re <= rs {
		re = rs + 1
	}
	off := int64(0)
	if r.Chance(15) {
		off = r.Range(1, 100_000)
		if r.Chance(30) {
			off = -off
		}
	}
	return fmt.Sprintf("q %s %d %d %d %d", fn, re-rs, off, re+off, useST)
}

func main() {
	c := h.Init()
	defer c.Finish()
	e := newEnv()
	defer e.st.Close()
	if c.Replay != "" {
		for _, cs := range c.ReplayCases() {
			c.Case(strings.TrimPrefix(cs[0], "case "))
			e.runCase(c, cs[1:])
		}
		return
	}
	r := c.Rng
	for i := 0; i < c.N; i++ {
		c.Case(fmt.Sprintf("r%d", i))
		ss, special := genSeries(c, r)
		var ops []string
		for _, s := range ss {
			ops = append(ops, fmt.Sprintf("s %d %016x %d", s.t, math.Float64bits(s.v), s.st))
		}
		nq := int(r.Range(3, 9))
		for k := 0; k < nq; k++ {
			q := genQuery(c, r, ss, special)
			ops = append(ops, q)
			// sibling query over the same window: increase = rate * range is judged on the pair
			if f := strings.Fields(q); (f[1] == "rate" || f[1] == "increase") && r.Chance(50) {
				f[1] = map[string]string{"rate": "increase", "increase": "rate"}[f[1]]
				ops = append(ops, strings.Join(f, " "))
				c.Count("q:sibling-pair")
			}
		}
		c.Count(fmt.Sprintf("len:%d", len(ss)))
		c.NonTrivial(strings.Join(ops, ";"))
		e.runCase(c, ops)
	}
}
