// Suite block (C24): persistent block files. Generated small blocks are written with the real
// chunks.Writer and index.Writer (precise control of the contents: arbitrary chunk bytes and
// encodings, extreme chunk metas, unicode label strings, several segment files), the bytes of the
// files are located through the real TOC / returned references and printed (T2: the Lean encoder must
// produce identical bytes), everything is read back through index.NewReader / chunks.NewDirReader /
// tsdb.OpenBlock + ChunkQuerier (T3), and single bytes of the files are altered one at a time (fault
// sweep: error or exactly the original data).  A directed family of blocks (genDirectedCase) puts the
// number of distinct values of a label name on either side of a multiple of symbolFactor and reads
// everything that walks the reader's sampled postings offset table.
package main

import (
	"context"
	"encoding/binary"
	"encoding/json"
	"errors"
	"fmt"
	"hash/crc32"
	"math"
	"os"
	"path/filepath"
	"runtime/pprof"
	"sort"
	"strconv"
	"strings"

	"github.com/oklog/ulid/v2"
	"github.com/prometheus/common/promslog"

	"github.com/prometheus/prometheus/model/labels"
	"github.com/prometheus/prometheus/storage"
	"github.com/prometheus/prometheus/tsdb"
	"github.com/prometheus/prometheus/tsdb/chunkenc"
	"github.com/prometheus/prometheus/tsdb/chunks"
	"github.com/prometheus/prometheus/tsdb/index"

	"verif/harness/h"
)

func fatal(err error) {
	if err != nil {
		fmt.Fprintln(os.Stderr, "harness error:", err)
		os.Exit(3)
	}
}

// rawChunk lets the writer store any encoding byte and any data.
type rawChunk struct {
	enc chunkenc.Encoding
	b   []byte
}

func (c *rawChunk) Bytes() []byte                                { return c.b }
func (c *rawChunk) Encoding() chunkenc.Encoding                  { return c.enc }
func (c *rawChunk) Appender() (chunkenc.Appender, error)         { return nil, errors.New("raw") }
func (c *rawChunk) Iterator(chunkenc.Iterator) chunkenc.Iterator { return chunkenc.NewNopIterator() }
func (c *rawChunk) NumSamples() int                              { return 0 }
func (c *rawChunk) Compact()                                     {}
func (c *rawChunk) Reset(b []byte)                               { c.b = b }

type memBytes []byte

func (b memBytes) Len() int                    { return len(b) }
func (b memBytes) Range(start, end int) []byte { return b[start:end] }

type seriesW struct {
	lbls []string // name, value, …
	chks []chunks.Meta
}

// env is the state of one case.
type env struct {
	c        *h.Ctx
	dir      string // block directory (tmpfs)
	cw       *chunks.Writer
	iw       *index.Writer
	segs     [][]byte // after cclose
	idx      []byte   // after iclose
	ir       *index.Reader
	ids      []storage.SeriesRef // all-postings of the undamaged index
	origSer  []string            // undamaged Series(id) outputs
	origAll  []string            // undamaged "everything else" reads
	refs     []uint64            // references handed out by WriteChunks
	origChk  map[uint64]string
	nSeries  int
	lastSref uint64
	bw       *tsdb.BlockWriter
	blocks   []string // directories of the blocks written by BlockWriter / compaction
}

func (e *env) close() {
	if e.cw != nil {
		e.cw.Close()
		e.cw = nil
	}
	if e.iw != nil {
		e.iw.Close()
		e.iw = nil
	}
	if e.ir != nil {
		e.ir.Close()
		e.ir = nil
	}
	if e.bw != nil {
		e.bw.Close()
		e.bw = nil
	}
	if e.dir != "" {
		os.RemoveAll(e.dir)
		e.dir = ""
	}
}

func lblStr(ls labels.Labels) string {
	var parts []string
	ls.Range(func(l labels.Label) {
		parts = append(parts, h.HexS(l.Name)+"="+h.HexS(l.Value))
	})
	if len(parts) == 0 {
		return "-"
	}
	return strings.Join(parts, ",")
}

func chkStr(cs []chunks.Meta) string {
	if len(cs) == 0 {
		return "-"
	}
	parts := make([]string, len(cs))
	for i, c := range cs {
		parts[i] = fmt.Sprintf("%d:%d:%d", c.MinTime, c.MaxTime, uint64(c.Ref))
	}
	return strings.Join(parts, ",")
}

func parseLbls(s string) ([]string, bool) {
	if s == "-" {
		return nil, true
	}
	var out []string
	for _, p := range strings.Split(s, ",") {
		kv := strings.Split(p, "=")
		if len(kv) != 2 {
			return nil, false
		}
		out = append(out, string(h.UnHex(kv[0])), string(h.UnHex(kv[1])))
	}
	return out, true
}

func parseChks(s string) ([]chunks.Meta, bool) {
	if s == "-" {
		return nil, true
	}
	var out []chunks.Meta
	for _, p := range strings.Split(s, ",") {
		f := strings.Split(p, ":")
		if len(f) != 3 {
			return nil, false
		}
		a, e1 := strconv.ParseInt(f[0], 10, 64)
		b, e2 := strconv.ParseInt(f[1], 10, 64)
		r, e3 := strconv.ParseUint(f[2], 10, 64)
		if e1 != nil || e2 != nil || e3 != nil {
			return nil, false
		}
		out = append(out, chunks.Meta{MinTime: a, MaxTime: b, Ref: chunks.ChunkRef(r)})
	}
	return out, true
}

func hexList(ss []string) string {
	if len(ss) == 0 {
		return "-"
	}
	parts := make([]string, len(ss))
	for i, s := range ss {
		parts[i] = h.HexS(s)
		if parts[i] == "-" {
			parts[i] = "e"
		}
	}
	return strings.Join(parts, ",")
}

func refList(rs []storage.SeriesRef) string {
	if len(rs) == 0 {
		return "-"
	}
	parts := make([]string, len(rs))
	for i, r := range rs {
		parts[i] = strconv.FormatUint(uint64(r), 10)
	}
	return strings.Join(parts, ",")
}

// ---- reads through the real readers

func readSeries(ir *index.Reader, id storage.SeriesRef) (out string) {
	var b labels.ScratchBuilder
	var chks []chunks.Meta
	p, v := h.Try(func() {
		if err := ir.Series(id, &b, &chks); err != nil {
			out = "err"
			return
		}
		out = "ok " + lblStr(b.Labels()) + " " + chkStr(chks)
	})
	if p {
		return fmt.Sprintf("panic %T", v)
	}
	return out
}

func readPostings(ir *index.Reader, name, value string) (out string) {
	p, v := h.Try(func() {
		ps, err := ir.Postings(context.Background(), name, value)
		if err != nil {
			out = "err"
			return
		}
		rs, err := index.ExpandPostings(ps)
		if err != nil {
			out = "err"
			return
		}
		out = "ok " + refList(rs)
	})
	if p {
		return fmt.Sprintf("panic %T", v)
	}
	return out
}

func readSymbols(ir *index.Reader) string {
	it := ir.Symbols()
	var ss []string
	for it.Next() {
		ss = append(ss, strings.Clone(it.At()))
	}
	if it.Err() != nil {
		return "err"
	}
	return "ok " + hexList(ss)
}

func readLabelValues(ir *index.Reader, name string) string {
	vs, err := ir.LabelValues(context.Background(), name, nil)
	if err != nil {
		return "err"
	}
	cp := make([]string, len(vs))
	for i, v := range vs {
		cp[i] = strings.Clone(v)
	}
	return "ok " + hexList(cp)
}

func readLabelNames(ir *index.Reader) string {
	ns, err := ir.LabelNames(context.Background())
	if err != nil {
		return "err"
	}
	return "ok " + hexList(ns)
}

func expand(ps index.Postings) string {
	rs, err := index.ExpandPostings(ps)
	if err != nil {
		return "err"
	}
	return "ok " + refList(rs)
}

// readPostingsMulti: Reader.Postings(name, values...) — the caller's slice is sorted in place, a copy is passed.
func readPostingsMulti(ir *index.Reader, name string, values []string) (out string) {
	p, v := h.Try(func() {
		ps, err := ir.Postings(context.Background(), name, append([]string(nil), values...)...)
		if err != nil {
			out = "err"
			return
		}
		out = expand(ps)
	})
	if p {
		return fmt.Sprintf("panic %T", v)
	}
	return out
}

// readPostingsAll: Reader.PostingsForAllLabelValues(name).
func readPostingsAll(ir *index.Reader, name string) (out string) {
	p, v := h.Try(func() { out = expand(ir.PostingsForAllLabelValues(context.Background(), name)) })
	if p {
		return fmt.Sprintf("panic %T", v)
	}
	return out
}

// matchFn is the serialisable family of value predicates used with PostingsForLabelMatching:
// byte-wise comparison of the label value with a fixed string.
func matchFn(kind, arg string) func(string) bool {
	switch kind {
	case "ge":
		return func(v string) bool { return v >= arg }
	case "lt":
		return func(v string) bool { return v < arg }
	case "eq":
		return func(v string) bool { return v == arg }
	case "ne":
		return func(v string) bool { return v != arg }
	}
	return nil
}

// readPostingsMatching: Reader.PostingsForLabelMatching(name, match).
func readPostingsMatching(ir *index.Reader, name string, match func(string) bool) (out string) {
	p, v := h.Try(func() { out = expand(ir.PostingsForLabelMatching(context.Background(), name, match)) })
	if p {
		return fmt.Sprintf("panic %T", v)
	}
	return out
}

// parseHexList is the inverse of hexList ("-" = no element, "e" = the empty string).
func parseHexList(s string) []string {
	if s == "-" {
		return nil
	}
	var out []string
	for _, p := range strings.Split(s, ",") {
		if p == "e" {
			out = append(out, "")
		} else {
			out = append(out, string(h.UnHex(p)))
		}
	}
	return out
}

// readEverything lists every read that is not a Series(id): symbols, names, values, postings.
func readEverything(ir *index.Reader) []string {
	var out []string
	out = append(out, "syms "+readSymbols(ir))
	out = append(out, "names "+readLabelNames(ir))
	out = append(out, "post -- "+readPostings(ir, "", ""))
	ns, err := ir.LabelNames(context.Background())
	if err != nil {
		return out
	}
	for _, n := range ns {
		n = strings.Clone(n)
		out = append(out, "values "+h.HexS(n)+" "+readLabelValues(ir, n))
		vs, err := ir.LabelValues(context.Background(), n, nil)
		if err != nil {
			continue
		}
		for _, v := range vs {
			v = strings.Clone(v)
			out = append(out, "post "+h.HexS(n)+" "+h.HexS(v)+" "+readPostings(ir, n, v))
		}
	}
	return out
}

func openIndexBytes(b []byte) (ir *index.Reader, ok bool) {
	p, _ := h.Try(func() {
		r, err := index.NewReader(memBytes(b), index.DecodePostingsRaw)
		if err == nil {
			ir, ok = r, true
		}
	})
	if p {
		return nil, false
	}
	return ir, ok
}

func readChunk(cr *chunks.Reader, ref uint64) (out string) {
	p, v := h.Try(func() {
		chk, _, err := cr.ChunkOrIterable(chunks.Meta{Ref: chunks.ChunkRef(ref)})
		if err != nil {
			out = "err"
			return
		}
		out = fmt.Sprintf("ok %d %s", chk.Encoding(), h.Hex(chk.Bytes()))
	})
	if p {
		return fmt.Sprintf("panic %T", v)
	}
	return out
}

func (e *env) chunkDir() string { return filepath.Join(e.dir, "chunks") }

func (e *env) segPath(i int) string { return filepath.Join(e.chunkDir(), fmt.Sprintf("%06d", i+1)) }

func openChunks(dir string) (cr *chunks.Reader, ok bool) {
	p, _ := h.Try(func() {
		r, err := chunks.NewDirReader(dir, nil)
		if err == nil {
			cr, ok = r, true
		}
	})
	if p {
		return nil, false
	}
	return cr, ok
}

func damage(b []byte, pos int, kind string) []byte {
	cp := append([]byte(nil), b...)
	switch kind {
	case "b0":
		cp[pos] ^= 1
	case "b7":
		cp[pos] ^= 0x80
	case "z":
		cp[pos] = 0
	case "ff":
		cp[pos] ^= 0xff
	}
	return cp
}

// tally compares a read after the damage with the same read before it: an error is counted apart
// from different data.
func tally(got, orig string, rest, errs *int) {
	switch {
	case got == orig:
	case got == "err" || strings.HasSuffix(got, " err"):
		*errs++
	default:
		*rest++
	}
}

// ---- executor

func (e *env) exec(op string) string {
	f := strings.Fields(op)
	if len(f) == 0 {
		return "bad-op"
	}
	switch f[0] {
	case "cw": // cw <segsize>
		if len(f) != 2 || e.cw != nil || e.segs != nil {
			return "bad-op"
		}
		n, err := strconv.ParseInt(f[1], 10, 64)
		if err != nil || n <= 0 || n > 1<<24 {
			return "bad-op"
		}
		w, err := chunks.NewWriter(e.chunkDir(), chunks.WithSegmentSize(n))
		fatal(err)
		e.cw = w
		return "ok"
	case "wc": // wc <enc>:<hex> …
		if e.cw == nil || len(f) < 2 {
			return "bad-op"
		}
		var ms []chunks.Meta
		for _, t := range f[1:] {
			p := strings.Split(t, ":")
			if len(p) != 2 {
				return "bad-op"
			}
			enc, err := strconv.ParseUint(p[0], 10, 8)
			if err != nil {
				return "bad-op"
			}
			ms = append(ms, chunks.Meta{Chunk: &rawChunk{enc: chunkenc.Encoding(enc), b: h.UnHex(p[1])}})
		}
		if err := e.cw.WriteChunks(ms...); err != nil {
			return "err"
		}
		parts := make([]string, len(ms))
		for i, m := range ms {
			e.refs = append(e.refs, uint64(m.Ref))
			parts[i] = strconv.FormatUint(uint64(m.Ref), 10)
		}
		return "ok " + strings.Join(parts, ",")
	case "cclose":
		if e.cw == nil {
			return "bad-op"
		}
		fatal(e.cw.Close())
		e.cw = nil
		e.segs = [][]byte{}
		for i := 0; ; i++ {
			b, err := os.ReadFile(e.segPath(i))
			if err != nil {
				break
			}
			e.segs = append(e.segs, b)
		}
		parts := make([]string, len(e.segs))
		for i, s := range e.segs {
			parts[i] = h.Hex(s)
		}
		e.origChk = map[uint64]string{}
		if cr, ok := openChunks(e.chunkDir()); ok {
			for _, r := range e.refs {
				e.origChk[r] = readChunk(cr, r)
			}
			cr.Close()
		}
		return strings.TrimSpace(fmt.Sprintf("nseg=%d %s", len(e.segs), strings.Join(parts, " ")))
	case "crec": // crec <ref>: the bytes of the record located through the reference
		if e.segs == nil || len(f) != 2 {
			return "bad-op"
		}
		ref, err := strconv.ParseUint(f[1], 10, 64)
		if err != nil {
			return "bad-op"
		}
		sg, off := int(ref>>32), int(ref&0xffffffff)
		if sg >= len(e.segs) || off >= len(e.segs[sg]) {
			return "none"
		}
		l, n := binary.Uvarint(e.segs[sg][off:])
		if n <= 0 || off+n+1+int(l)+4 > len(e.segs[sg]) {
			return "none"
		}
		return "ok " + h.Hex(e.segs[sg][off:off+n+1+int(l)+4])
	case "rc": // rc <ref>
		if e.segs == nil || len(f) != 2 {
			return "bad-op"
		}
		ref, err := strconv.ParseUint(f[1], 10, 64)
		if err != nil {
			return "bad-op"
		}
		cr, ok := openChunks(e.chunkDir())
		if !ok {
			return "openerr"
		}
		defer cr.Close()
		return readChunk(cr, ref)
	case "dmgc": // dmgc <seg> <pos> <kind> <ref|->
		if e.segs == nil || len(f) != 5 {
			return "bad-op"
		}
		sg, e1 := strconv.Atoi(f[1])
		pos, e2 := strconv.Atoi(f[2])
		if e1 != nil || e2 != nil || sg < 0 || sg >= len(e.segs) || pos < 0 || pos >= len(e.segs[sg]) {
			return "bad-op"
		}
		fatal(os.WriteFile(e.segPath(sg), damage(e.segs[sg], pos, f[3]), 0o644))
		defer func() { fatal(os.WriteFile(e.segPath(sg), e.segs[sg], 0o644)) }()
		cr, ok := openChunks(e.chunkDir())
		if !ok {
			return "openerr"
		}
		defer cr.Close()
		out := "-"
		var target uint64
		if f[4] != "-" {
			t, err := strconv.ParseUint(f[4], 10, 64)
			if err != nil {
				return "bad-op"
			}
			target = t
			out = readChunk(cr, target)
		}
		rest, errs := 0, 0
		for _, r := range e.refs {
			if f[4] != "-" && r == target {
				continue
			}
			tally(readChunk(cr, r), e.origChk[r], &rest, &errs)
		}
		return fmt.Sprintf("%s rest=%d errs=%d", out, rest, errs)

	case "iw":
		if e.iw != nil || e.idx != nil {
			return "bad-op"
		}
		w, err := index.NewWriter(context.Background(), filepath.Join(e.dir, "index"))
		fatal(err)
		e.iw = w
		return "ok"
	case "sym": // sym <hex>
		if e.iw == nil || len(f) != 2 {
			return "bad-op"
		}
		if err := e.iw.AddSymbol(string(h.UnHex(f[1]))); err != nil {
			return "err"
		}
		return "ok"
	case "ser": // ser <sref> <lbls> <chks>
		if e.iw == nil || len(f) != 4 {
			return "bad-op"
		}
		sref, err := strconv.ParseUint(f[1], 10, 64)
		ls, ok1 := parseLbls(f[2])
		cs, ok2 := parseChks(f[3])
		if err != nil || !ok1 || !ok2 {
			return "bad-op"
		}
		var sb labels.ScratchBuilder
		for i := 0; i+1 < len(ls); i += 2 {
			sb.Add(ls[i], ls[i+1])
		}
		if err := e.iw.AddSeries(storage.SeriesRef(sref), sb.Labels(), cs...); err != nil {
			return "err"
		}
		e.nSeries++
		return "ok"
	case "iclose":
		if e.iw == nil {
			return "bad-op"
		}
		err := e.iw.Close()
		e.iw = nil
		if err != nil {
			return "err"
		}
		b, err := os.ReadFile(filepath.Join(e.dir, "index"))
		fatal(err)
		e.idx = b
		ir, ok := openIndexBytes(b)
		if !ok {
			return "err-open"
		}
		e.ir = ir
		ps, err := ir.Postings(context.Background(), "", "")
		if err != nil {
			return "err-all-postings"
		}
		e.ids, err = index.ExpandPostings(ps)
		if err != nil {
			return "err-all-postings"
		}
		e.origSer = nil
		for _, id := range e.ids {
			e.origSer = append(e.origSer, readSeries(ir, id))
		}
		e.origAll = readEverything(ir)
		toc, err := index.NewTOCFromByteSlice(memBytes(b))
		fatal(err)
		return fmt.Sprintf("ok size=%d toc=%d,%d,%d,%d,%d,%d", len(b), toc.Symbols, toc.Series, toc.LabelIndices, toc.LabelIndicesTable, toc.Postings, toc.PostingsTable)
	case "ifile":
		if e.idx == nil {
			return "bad-op"
		}
		return h.Hex(e.idx)
	case "isymtab": // the symbol table section located through the TOC
		if e.idx == nil {
			return "bad-op"
		}
		toc, err := index.NewTOCFromByteSlice(memBytes(e.idx))
		fatal(err)
		off := int(toc.Symbols)
		l := int(binary.BigEndian.Uint32(e.idx[off:]))
		return h.Hex(e.idx[off : off+4+l+4])
	case "itoc":
		if e.idx == nil {
			return "bad-op"
		}
		return h.Hex(e.idx[len(e.idx)-52:])
	case "ientry": // ientry <k>: entry of the k-th series located through the all-postings list
		if e.idx == nil || len(f) != 2 {
			return "bad-op"
		}
		k, err := strconv.Atoi(f[1])
		if err != nil || k < 0 {
			return "bad-op"
		}
		if k >= len(e.ids) {
			return "none"
		}
		off := int(e.ids[k]) * 16
		l, n := binary.Uvarint(e.idx[off:])
		return fmt.Sprintf("id=%d %s", uint64(e.ids[k]), h.Hex(e.idx[off:off+n+int(l)+4]))
	case "rsyms":
		if e.ir == nil {
			return "bad-op"
		}
		return readSymbols(e.ir)
	case "rser": // rser <k>
		if e.ir == nil || len(f) != 2 {
			return "bad-op"
		}
		k, err := strconv.Atoi(f[1])
		if err != nil || k < 0 {
			return "bad-op"
		}
		if k >= len(e.ids) {
			return "none"
		}
		return fmt.Sprintf("id=%d %s", uint64(e.ids[k]), readSeries(e.ir, e.ids[k]))
	case "rpost": // rpost <namehex> <valuehex>
		if e.ir == nil || len(f) != 3 {
			return "bad-op"
		}
		return readPostings(e.ir, string(h.UnHex(f[1])), string(h.UnHex(f[2])))
	case "rpostm": // rpostm <namehex> <valuehex,…|->: Postings(name, values...)
		if e.ir == nil || len(f) != 3 {
			return "bad-op"
		}
		return readPostingsMulti(e.ir, string(h.UnHex(f[1])), parseHexList(f[2]))
	case "rpall": // rpall <namehex>: PostingsForAllLabelValues(name)
		if e.ir == nil || len(f) != 2 {
			return "bad-op"
		}
		return readPostingsAll(e.ir, string(h.UnHex(f[1])))
	case "rpm": // rpm <namehex> <ge|lt|eq|ne> <arghex>: PostingsForLabelMatching(name, value <kind> arg)
		if e.ir == nil || len(f) != 4 {
			return "bad-op"
		}
		m := matchFn(f[2], string(h.UnHex(f[3])))
		if m == nil {
			return "bad-op"
		}
		return readPostingsMatching(e.ir, string(h.UnHex(f[1])), m)
	case "rlv":
		if e.ir == nil || len(f) != 2 {
			return "bad-op"
		}
		return readLabelValues(e.ir, string(h.UnHex(f[1])))
	case "rln":
		if e.ir == nil {
			return "bad-op"
		}
		return readLabelNames(e.ir)
	case "decbody": // decbody <hex>: Decoder.Series on an arbitrary entry body, symbols of this index
		if e.ir == nil || len(f) != 2 {
			return "bad-op"
		}
		toc, err := index.NewTOCFromByteSlice(memBytes(e.idx))
		fatal(err)
		syms, err := index.NewSymbols(memBytes(e.idx), index.FormatV2, int(toc.Symbols))
		fatal(err)
		dec := &index.Decoder{LookupSymbol: func(_ context.Context, o uint32) (string, error) { return syms.Lookup(o) }}
		var out string
		p, v := h.Try(func() {
			var b labels.ScratchBuilder
			var chks []chunks.Meta
			if err := dec.Series(h.UnHex(f[1]), &b, &chks); err != nil {
				out = "err"
				return
			}
			out = "ok " + lblStr(b.Labels()) + " " + chkStr(chks)
		})
		if p {
			return fmt.Sprintf("panic %T", v)
		}
		return out
	case "dmgi": // dmgi <pos> <kind> ser <k> | dmgi <pos> <kind> all
		if e.idx == nil || len(f) < 4 {
			return "bad-op"
		}
		pos, err := strconv.Atoi(f[1])
		if err != nil || pos < 0 || pos >= len(e.idx) {
			return "bad-op"
		}
		ir, ok := openIndexBytes(damage(e.idx, pos, f[2]))
		if !ok {
			return "openerr"
		}
		defer ir.Close()
		k := -1
		out := "-"
		if f[3] == "ser" && len(f) == 5 {
			k, err = strconv.Atoi(f[4])
			if err != nil || k < 0 || k >= len(e.ids) {
				return "bad-op"
			}
			out = readSeries(ir, e.ids[k])
		}
		rest, errs := 0, 0
		for i, id := range e.ids {
			if i != k {
				tally(readSeries(ir, id), e.origSer[i], &rest, &errs)
			}
		}
		all := readEverything(ir)
		if len(all) != len(e.origAll) {
			rest++
		} else {
			for i := range all {
				tally(all[i], e.origAll[i], &rest, &errs)
			}
		}
		return fmt.Sprintf("%s rest=%d errs=%d", out, rest, errs)
	case "bw": // tsdb.NewBlockWriter
		if e.bw != nil {
			return "bad-op"
		}
		w, err := tsdb.NewBlockWriter(promslog.NewNopLogger(), filepath.Join(e.dir, "blocks"), 2*3600*1000)
		fatal(err)
		e.bw = w
		return "ok"
	case "app": // app <lbls> <t> <value bits>
		if e.bw == nil || len(f) != 4 {
			return "bad-op"
		}
		ls, ok := parseLbls(f[1])
		t, e1 := strconv.ParseInt(f[2], 10, 64)
		v, e2 := strconv.ParseUint(f[3], 16, 64)
		if !ok || e1 != nil || e2 != nil {
			return "bad-op"
		}
		var sb labels.ScratchBuilder
		for i := 0; i+1 < len(ls); i += 2 {
			sb.Add(ls[i], ls[i+1])
		}
		a := e.bw.Appender(context.Background())
		if _, err := a.Append(0, sb.Labels(), t, math.Float64frombits(v)); err != nil {
			a.Rollback()
			return "err"
		}
		if err := a.Commit(); err != nil {
			return "err"
		}
		return "ok"
	case "flush":
		if e.bw == nil {
			return "bad-op"
		}
		id, err := e.bw.Flush(context.Background())
		e.bw.Close()
		e.bw = nil
		if errors.Is(err, tsdb.ErrNoSeriesAppended) || (err == nil && id == (ulid.ULID{})) {
			return "err-empty" // nothing appended: no block is produced (Flush returns the zero ULID)
		}
		if err != nil {
			return "err"
		}
		e.blocks = append(e.blocks, filepath.Join(e.dir, "blocks", id.String()))
		return "ok"
	case "q": // q <n>: all samples of block n through OpenBlock + querier
		if len(f) != 2 {
			return "bad-op"
		}
		n, err := strconv.Atoi(f[1])
		if err != nil || n < 1 || n > len(e.blocks) {
			return "bad-op"
		}
		return queryBlock(e.blocks[n-1])
	case "compact": // compact <n,m,…>: LeveledCompactor.Compact of the listed blocks into a new one
		if len(f) != 2 {
			return "bad-op"
		}
		var dirs []string
		for _, t := range strings.Split(f[1], ",") {
			n, err := strconv.Atoi(t)
			if err != nil || n < 1 || n > len(e.blocks) {
				return "bad-op"
			}
			dirs = append(dirs, e.blocks[n-1])
		}
		lc, err := tsdb.NewLeveledCompactor(context.Background(), nil, promslog.NewNopLogger(), []int64{2 * 3600 * 1000}, nil, nil)
		fatal(err)
		ids, err := lc.Compact(filepath.Join(e.dir, "blocks"), dirs, nil)
		if err != nil || len(ids) != 1 {
			return "err"
		}
		e.blocks = append(e.blocks, filepath.Join(e.dir, "blocks", ids[0].String()))
		return "ok"
	case "openq": // OpenBlock + ChunkQuerier over everything
		if e.idx == nil || e.segs == nil {
			return "bad-op"
		}
		return e.openq()
	}
	return "bad-op"
}

var fixedULID = ulid.MustParse("01BX5ZZKBKACTAV9WEVGEMMVRZ")

func (e *env) openq() (out string) {
	meta := tsdb.BlockMeta{ULID: fixedULID, MinTime: math.MinInt64, MaxTime: math.MaxInt64, Version: 1}
	meta.Compaction.Level = 1
	meta.Compaction.Sources = []ulid.ULID{fixedULID}
	mb, err := json.Marshal(&meta)
	fatal(err)
	fatal(os.WriteFile(filepath.Join(e.dir, "meta.json"), mb, 0o644))
	p, v := h.Try(func() {
		b, err := tsdb.OpenBlock(promslog.NewNopLogger(), e.dir, nil, nil)
		if err != nil {
			out = "openerr"
			return
		}
		defer b.Close()
		q, err := tsdb.NewBlockChunkQuerier(b, math.MinInt64, math.MaxInt64)
		if err != nil {
			out = "err"
			return
		}
		defer q.Close()
		ss := q.Select(context.Background(), true, nil, labels.MustNewMatcher(labels.MatchRegexp, "\x00none", ".*"))
		var parts []string
		for ss.Next() {
			s := ss.At()
			it := s.Iterator(nil)
			var cs []string
			for it.Next() {
				m := it.At()
				cs = append(cs, fmt.Sprintf("%d:%d:%d:%s", m.MinTime, m.MaxTime, m.Chunk.Encoding(), h.Hex(m.Chunk.Bytes())))
			}
			if it.Err() != nil {
				out = "err"
				return
			}
			c := "-"
			if len(cs) > 0 {
				c = strings.Join(cs, ";")
			}
			parts = append(parts, lblStr(s.Labels())+"|"+c)
		}
		if ss.Err() != nil {
			out = "err"
			return
		}
		out = strings.TrimSpace("ok " + strings.Join(parts, " "))
	})
	if p {
		return fmt.Sprintf("panic %T %v", v, v)
	}
	return out
}

func queryBlock(dir string) (out string) {
	p, v := h.Try(func() {
		b, err := tsdb.OpenBlock(promslog.NewNopLogger(), dir, nil, nil)
		if err != nil {
			out = "openerr"
			return
		}
		defer b.Close()
		q, err := tsdb.NewBlockQuerier(b, math.MinInt64, math.MaxInt64)
		if err != nil {
			out = "err"
			return
		}
		defer q.Close()
		ss := q.Select(context.Background(), true, nil, labels.MustNewMatcher(labels.MatchRegexp, "\x00none", ".*"))
		var parts []string
		var it chunkenc.Iterator
		for ss.Next() {
			s := ss.At()
			it = s.Iterator(it)
			var sm []string
			for vt := it.Next(); vt != chunkenc.ValNone; vt = it.Next() {
				if vt != chunkenc.ValFloat {
					out = "err-type"
					return
				}
				t, v := it.At()
				sm = append(sm, fmt.Sprintf("%d:%016x", t, math.Float64bits(v)))
			}
			if it.Err() != nil {
				out = "err"
				return
			}
			parts = append(parts, lblStr(s.Labels())+"|"+strings.Join(sm, ","))
		}
		if ss.Err() != nil {
			out = "err"
			return
		}
		out = strings.TrimSpace("ok " + strings.Join(parts, " "))
	})
	if p {
		return fmt.Sprintf("panic %T %v", v, v)
	}
	return out
}

func (e *env) op(op string) string {
	out := e.exec(op)
	e.c.Op(op, out)
	return out
}

// ---- generator

var (
	nameAlphabet = []string{"a", "b", "__name__", "job", "é", "名前", "á", "z", "le", "\xff"}
	valAlphabet  = []string{"", "x", "y", "xy", "z1", "ü", "値", "\xf0\x9f\x98\x80", "0", "a", "b", "node-1", strings.Repeat("v", 130), "\xc3"}
	timeEdges    = []int64{math.MinInt64, math.MinInt64 + 1, -1 << 62, -1 << 40, -1000, -1, 0, 1, 63, 64, 1000, 1 << 31, 1 << 40, 1 << 62, math.MaxInt64 - 1, math.MaxInt64}
	refEdges     = []uint64{0, 1, 8, 127, 128, 1 << 20, 1<<32 - 1, 1 << 32, 1<<32 + 8, 1<<63 - 1, 1 << 63, 1<<63 + 1, math.MaxUint64 - 1, math.MaxUint64}
)

func genTimes(r *h.Rng, n int) []int64 {
	// 2n values t0 ≤ t1 < t2 ≤ t3 < …
	set := map[int64]bool{}
	var pool []int64
	for len(pool) < 2*n {
		var t int64
		switch r.Intn(4) {
		case 0:
			t = h.PickI64(r, timeEdges)
		case 1:
			t = r.Range(-50, 50)
		case 2:
			t = int64(r.U64())
		default:
			t = r.Range(1600000000000, 1600000100000)
		}
		if !set[t] {
			set[t] = true
			pool = append(pool, t)
		}
	}
	sort.Slice(pool, func(i, j int) bool { return pool[i] < pool[j] })
	for i := 0; i < n; i++ {
		if r.Chance(20) {
			pool[2*i+1] = pool[2*i] // mint == maxt
		}
	}
	return pool
}

func genData(r *h.Rng, thorough bool) []byte {
	var n int
	switch r.Intn(12) {
	case 0:
		n = 0
	case 1:
		n = h.Pick(r, []int{126, 127, 128, 129})
	case 2:
		if thorough && r.Chance(30) {
			n = h.Pick(r, []int{16383, 16384})
		} else {
			n = r.Intn(300)
		}
	default:
		n = 1 + r.Intn(24)
	}
	b := make([]byte, n)
	for i := range b {
		b[i] = byte(r.U64())
	}
	if r.Chance(15) {
		for i := range b {
			b[i] = 0
		}
	}
	return b
}

func xorChunk(r *h.Rng, mint, maxt int64) []byte {
	c := chunkenc.NewXORChunk()
	app, err := c.Appender()
	fatal(err)
	app.Append(0, mint, float64(r.Intn(100)))
	if maxt > mint {
		n := r.Intn(4)
		step := (maxt - mint) / int64(n+1)
		for i := 1; i <= n && step > 0; i++ {
			app.Append(0, mint+int64(i)*step, float64(r.Intn(1000))/8)
		}
		app.Append(0, maxt, float64(r.Intn(100)))
	}
	return append([]byte(nil), c.Bytes()...)
}

type lset []string // name, value, …

func cmpLset(a, b lset) int {
	for i := 0; i < len(a) && i < len(b); i++ {
		if a[i] != b[i] {
			if a[i] < b[i] {
				return -1
			}
			return 1
		}
	}
	return len(a) - len(b)
}

func lsetStr(l lset) string {
	parts := make([]string, 0, len(l)/2)
	for i := 0; i+1 < len(l); i += 2 {
		parts = append(parts, h.HexS(l[i])+"="+h.HexS(l[i+1]))
	}
	return strings.Join(parts, ",")
}

func genLsets(r *h.Rng, n int, many bool) []lset {
	seen := map[string]bool{}
	var out []lset
	for tries := 0; len(out) < n && tries < 20*n+50; tries++ {
		k := 1 + r.Intn(4)
		names := map[string]bool{}
		for len(names) < k {
			names[h.Pick(r, nameAlphabet)] = true
		}
		var ns []string
		for nm := range names {
			ns = append(ns, nm)
		}
		sort.Strings(ns)
		var l lset
		for _, nm := range ns {
			v := h.Pick(r, valAlphabet)
			if many && nm == ns[0] {
				v = fmt.Sprintf("v%03d", r.Intn(200))
			}
			l = append(l, nm, v)
		}
		key := strings.Join(l, "\x00")
		if !seen[key] {
			seen[key] = true
			out = append(out, l)
		}
	}
	sort.Slice(out, func(i, j int) bool { return cmpLset(out[i], out[j]) < 0 })
	return out
}

func genCase(c *h.Ctx, id string, thorough, forceMany bool) {
	r := c.Rng
	c.Case(id)
	e := &env{c: c, dir: h.TempDir("verif-block-")}
	defer e.close()
	real := r.Chance(30) && !forceMany
	many := forceMany || (!real && r.Chance(8))
	key := fmt.Sprintf("real=%v many=%v", real, many)

	// series plan
	nser := 1 + r.Intn(8)
	if r.Chance(4) {
		nser = 0
	}
	if many {
		nser = 30 + r.Intn(45)
	}
	lsets := genLsets(r, nser, many)
	nchk := make([]int, len(lsets))
	total := 0
	for i := range lsets {
		nchk[i] = r.Intn(5)
		if many {
			nchk[i] = r.Intn(2)
		}
		total += nchk[i]
	}

	// ---- chunk segment files
	segSize := h.Pick(r, []int{40, 64, 100, 200, 1000, 65536})
	e.op(fmt.Sprintf("cw %d", segSize))
	type wchunk struct {
		mint, maxt int64
	}
	var written []wchunk
	if real {
		// genuine XOR chunks, handed to the series in order
		times := make([][]int64, len(lsets))
		for i := range lsets {
			times[i] = genTimes(r, nchk[i])
			for j := range times[i] { // keep away from the int64 ends: an open-ended maxt is special to the querier
				if times[i][j] > 1<<62 || times[i][j] < -(1<<62) {
					times[i][j] /= 4
				}
			}
			sort.Slice(times[i], func(a, b int) bool { return times[i][a] < times[i][b] })
			// restore t0 ≤ t1 < t2 after scaling
			for j := 1; j < len(times[i]); j++ {
				if j%2 == 0 && times[i][j] <= times[i][j-1] {
					times[i][j] = times[i][j-1] + 1
				}
				if j%2 == 1 && times[i][j] < times[i][j-1] {
					times[i][j] = times[i][j-1]
				}
			}
		}
		var batch []string
		flush := func() {
			if len(batch) > 0 {
				e.op("wc " + strings.Join(batch, " "))
				batch = nil
			}
		}
		for i := range lsets {
			for j := 0; j < nchk[i]; j++ {
				mint, maxt := times[i][2*j], times[i][2*j+1]
				batch = append(batch, "1:"+h.Hex(xorChunk(r, mint, maxt)))
				written = append(written, wchunk{mint, maxt})
				if r.Chance(30) {
					flush()
				}
			}
			if r.Chance(50) {
				flush()
			}
		}
		flush()
	} else {
		ncalls := 1 + r.Intn(3)
		for k := 0; k < ncalls; k++ {
			n := 1 + r.Intn(5)
			var batch []string
			for j := 0; j < n; j++ {
				enc := 1 + r.Intn(6)
				if r.Chance(8) {
					enc = h.Pick(r, []int{0, 7, 128, 255})
				}
				batch = append(batch, fmt.Sprintf("%d:%s", enc, h.Hex(genData(r, thorough))))
			}
			e.op("wc " + strings.Join(batch, " "))
		}
	}
	out := e.op("cclose")
	key += " " + strings.Fields(out)[0]
	c.Count("segments:" + strings.Fields(out)[0])
	for _, ref := range e.refs {
		e.op(fmt.Sprintf("crec %d", ref))
		o := e.op(fmt.Sprintf("rc %d", ref))
		c.Count("rc:" + strings.Fields(o)[0])
	}
	// references that do not start a record
	for k := 0; k < 3; k++ {
		var ref uint64
		switch r.Intn(4) {
		case 0:
			ref = uint64(len(e.segs))<<32 | 8
		case 1:
			ref = uint64(r.Intn(len(e.segs)+1))<<32 | uint64(r.Intn(400))
		case 2:
			if len(e.refs) > 0 {
				ref = h.Pick(r, e.refs) + uint64(1+r.Intn(3))
			}
		default:
			if len(e.segs) > 0 {
				ref = uint64(len(e.segs)-1)<<32 | uint64(len(e.segs[len(e.segs)-1])-r.Intn(7))
			}
		}
		o := e.op(fmt.Sprintf("rc %d", ref))
		c.Count("rc-bogus:" + strings.Fields(o)[0])
	}

	// ---- index
	e.op("iw")
	symset := map[string]bool{}
	for _, l := range lsets {
		for _, s := range l {
			symset[s] = true
		}
	}
	for k := r.Intn(3); k > 0; k-- {
		symset[h.Pick(r, valAlphabet)+"?"] = true // unused symbols
	}
	var syms []string
	for s := range symset {
		syms = append(syms, s)
	}
	sort.Strings(syms)
	for i, s := range syms {
		e.op("sym " + h.HexS(s))
		if r.Chance(4) { // out of order: rejected
			o := e.op("sym " + h.HexS(syms[r.Intn(i+1)]))
			c.Count("sym-unsorted:" + o)
		}
	}
	var refPool []uint64
	if !real {
		set := map[uint64]bool{}
		for len(refPool) < total {
			var x uint64
			switch r.Intn(4) {
			case 0:
				x = h.Pick(r, refEdges)
			case 1:
				x = uint64(r.Intn(5000))
			case 2:
				if len(e.refs) > 0 {
					x = h.Pick(r, e.refs)
				}
			default:
				x = r.U64()
			}
			if !set[x] || r.Chance(10) {
				set[x] = true
				refPool = append(refPool, x)
			}
		}
		sort.Slice(refPool, func(i, j int) bool { return refPool[i] < refPool[j] })
	}
	ci := 0
	sref := uint64(r.Intn(3))
	lastSref := uint64(0)
	var lastOK string
	for i, l := range lsets {
		var cs []string
		var times []int64
		if !real {
			times = genTimes(r, nchk[i])
		}
		for j := 0; j < nchk[i]; j++ {
			if real {
				cs = append(cs, fmt.Sprintf("%d:%d:%d", written[ci].mint, written[ci].maxt, e.refs[ci]))
			} else {
				cs = append(cs, fmt.Sprintf("%d:%d:%d", times[2*j], times[2*j+1], refPool[ci]))
			}
			ci++
		}
		chks := "-"
		if len(cs) > 0 {
			chks = strings.Join(cs, ",")
		}
		// rejected variants first: they must leave no trace
		if r.Chance(12) && lastOK != "" {
			o := e.op(lastOK) // same label set again: out of order
			c.Count("ser-dup:" + o)
		}
		if r.Chance(8) && len(cs) >= 2 {
			sw := append([]string(nil), cs...)
			sw[0], sw[1] = sw[1], sw[0]
			o := e.op(fmt.Sprintf("ser %d %s %s", sref, lsetStr(l), strings.Join(sw, ",")))
			c.Count("ser-badchunks:" + o)
		}
		if f := strings.Split(append(cs, "0:0:0")[0], ":"); r.Chance(6) && len(cs) >= 1 && f[0] != f[1] {
			o := e.op(fmt.Sprintf("ser %d %s %s:%s:%s", sref, lsetStr(l), f[1], f[0], f[2]))
			c.Count("ser-maxt-lt-mint:" + o)
		}
		if r.Chance(6) && lastSref >= 1 {
			o := e.op(fmt.Sprintf("ser %d %s %s", lastSref-1, lsetStr(l), chks))
			c.Count("ser-lowref:" + o)
		}
		line := fmt.Sprintf("ser %d %s %s", sref, lsetStr(l), chks)
		o := e.op(line)
		c.Count("ser:" + o)
		if o == "ok" {
			lastOK = line
			lastSref = sref
		}
		sref += uint64(r.Intn(3))
	}
	o := e.op("iclose")
	if !strings.HasPrefix(o, "ok") {
		c.Count("iclose:" + o)
		return
	}
	e.op("ifile")
	e.op("isymtab")
	e.op("itoc")
	e.op("rsyms")
	for k := 0; k <= len(e.ids); k++ { // one past the end → none
		e.op(fmt.Sprintf("ientry %d", k))
		e.op(fmt.Sprintf("rser %d", k))
	}
	e.op("rln")
	e.op("rpost - -")
	pairs := map[[2]string]bool{}
	namesSeen := map[string]bool{}
	for _, l := range lsets {
		for i := 0; i+1 < len(l); i += 2 {
			pairs[[2]string{l[i], l[i+1]}] = true
			namesSeen[l[i]] = true
		}
	}
	var pl [][2]string
	for p := range pairs {
		pl = append(pl, p)
	}
	sort.Slice(pl, func(i, j int) bool { return pl[i][0] < pl[j][0] || pl[i][0] == pl[j][0] && pl[i][1] < pl[j][1] })
	if many && len(pl) > 40 {
		r2 := r.Fork()
		for i := len(pl) - 1; i > 0; i-- {
			j := r2.Intn(i + 1)
			pl[i], pl[j] = pl[j], pl[i]
		}
		pl = pl[:40]
	}
	for _, p := range pl {
		e.op("rpost " + h.HexS(p[0]) + " " + h.HexS(p[1]))
	}
	e.op("rpost " + h.HexS("a") + " " + h.HexS("no-such-value"))
	e.op("rpost " + h.HexS("no-such-name") + " " + h.HexS("x"))
	var nl []string
	for n := range namesSeen {
		nl = append(nl, n)
	}
	sort.Strings(nl)
	for _, n := range nl {
		e.op("rlv " + h.HexS(n))
	}
	e.op("rlv " + h.HexS("no-such-name"))

	// arbitrary entry bodies through the real Decoder.Series
	for k := 0; k < 6 && len(e.ids) > 0; k++ {
		i := r.Intn(len(e.ids))
		off := int(e.ids[i]) * 16
		l, n := binary.Uvarint(e.idx[off:])
		body := append([]byte(nil), e.idx[off+n:off+n+int(l)]...)
		switch r.Intn(5) {
		case 0:
			body = body[:r.Intn(len(body)+1)]
		case 1:
			body[r.Intn(len(body))] ^= byte(1 << r.Intn(8))
		case 2:
			body[r.Intn(len(body))] = byte(r.U64())
			body[r.Intn(len(body))] = byte(r.U64())
		case 3:
			body = append(body, byte(r.U64()))
		default:
			body[r.Intn(len(body))] |= 0x80
		}
		o := e.op("decbody " + h.Hex(body))
		c.Count("decbody:" + strings.Fields(o)[0])
	}

	if real {
		o1 := e.op("openq")
		e.op("openq") // a second open of the same directory
		c.Count("openq:" + strings.Fields(o1)[0])
	}

	// ---- fault sweep (small blocks only)
	if !many {
		stride := 5
		if thorough {
			stride = 1
		}
		e.sweepIndex(stride)
		e.sweepChunks(stride)
	}
	c.NonTrivial(key + fmt.Sprintf(" nser=%d nchk=%d", len(e.ids), total))
}

// ---- directed family: label names with a number of distinct values on either side of a multiple of
// symbolFactor (32).  newReader keeps only every 32nd entry of the postings offset table per label name
// plus the last one; which entry is "the last one" depends on the value count modulo 32 and on whether
// another label name follows in the table.  Every read that walks the sampled table is listed for every
// name / value: LabelValues, LabelNames, Postings (one value, several values), PostingsForAllLabelValues,
// PostingsForLabelMatching.

type dlabel struct {
	name   string
	n      int  // number of distinct values
	style  int  // 0: "%02d"; 1: one byte 0x30+k; 2: "" first, then "%02d"
	sparse bool // absent from every 5th series (only for labels that do not carry the largest count)
}

func dval(style, k int) string {
	switch style {
	case 1:
		return string([]byte{byte(0x30 + k)})
	case 2:
		if k == 0 {
			return ""
		}
	}
	return fmt.Sprintf("%02d", k)
}

var (
	dFirst  = []string{"__name__", "a", "b"}
	dMiddle = []string{"j", "job", "le"}
	dLast   = []string{"z", "é", "名前"}
)

// dspec: value counts at the three name positions (0 = no label there).
type dspec struct{ first, middle, last int }

func (s dspec) String() string { return fmt.Sprintf("%d/%d/%d", s.first, s.middle, s.last) }

func directedSpecs(thorough bool) []dspec {
	if !thorough {
		return []dspec{
			{33, 2, 0},  // 32+1 values, another name follows
			{1, 65, 3},  // 64+1 values in the middle
			{32, 64, 1}, // exact multiples, two such names in one block
			{2, 33, 65}, // 33 followed by a name, 65 not followed by anything
		}
	}
	var out []dspec
	for _, v := range []int{31, 32, 33, 34, 63, 64, 65, 66, 96, 97} {
		out = append(out, dspec{v, 2, 0}, dspec{1, v, 3}, dspec{2, 1, v}, dspec{v, 0, 0})
	}
	// two boundary names in one block: adjacent, separated, first/last
	out = append(out,
		dspec{33, 65, 1}, dspec{65, 33, 0}, dspec{33, 33, 33}, dspec{32, 33, 2}, dspec{33, 32, 2},
		dspec{97, 1, 33}, dspec{1, 64, 65}, dspec{65, 65, 0}, dspec{31, 2, 97}, dspec{96, 97, 1},
		dspec{34, 66, 3}, dspec{33, 1, 1}, dspec{1, 1, 33}, dspec{64, 33, 65})
	return out
}

func genDirectedCase(c *h.Ctx, r *h.Rng, id string, sp dspec) {
	c.Case(id)
	e := &env{c: c, dir: h.TempDir("verif-block-")}
	defer e.close()
	var lbs []dlabel
	n := 0
	for i, cnt := range []int{sp.first, sp.middle, sp.last} {
		if cnt == 0 {
			continue
		}
		nm := h.Pick(r, [][]string{dFirst, dMiddle, dLast}[i])
		lbs = append(lbs, dlabel{name: nm, n: cnt, style: r.Intn(3)})
		if cnt > n {
			n = cnt
		}
	}
	for i := range lbs {
		lbs[i].sparse = lbs[i].n < n && lbs[i].n <= 3 && r.Chance(30)
	}
	var lsets []lset
	for i := 0; i < n; i++ {
		var l lset
		for _, d := range lbs {
			if d.sparse && i%5 == 4 {
				continue
			}
			l = append(l, d.name, dval(d.style, i%d.n))
		}
		lsets = append(lsets, l)
	}
	sort.Slice(lsets, func(i, j int) bool { return cmpLset(lsets[i], lsets[j]) < 0 })

	e.op("iw")
	symset := map[string]bool{}
	for _, l := range lsets {
		for _, s := range l {
			symset[s] = true
		}
	}
	if r.Bool() {
		symset["~unused"] = true
	}
	var syms []string
	for s := range symset {
		syms = append(syms, s)
	}
	sort.Strings(syms)
	for _, s := range syms {
		e.op("sym " + h.HexS(s))
	}
	sref := uint64(r.Intn(3))
	ref := uint64(r.Intn(100))
	for _, l := range lsets {
		chks := "-"
		if r.Chance(30) {
			t := genTimes(r, 1)
			ref += uint64(r.Intn(5000))
			chks = fmt.Sprintf("%d:%d:%d", t[0], t[1], ref)
		}
		o := e.op(fmt.Sprintf("ser %d %s %s", sref, lsetStr(l), chks))
		c.Count("ser:" + o)
		sref += uint64(r.Intn(3))
	}
	o := e.op("iclose")
	if !strings.HasPrefix(o, "ok") {
		c.Count("iclose:" + o)
		return
	}
	e.op("ifile")
	e.op("rsyms")
	for k := 0; k <= len(e.ids); k++ {
		e.op(fmt.Sprintf("rser %d", k))
	}
	e.op("rln")
	e.op("rpost - -")
	e.op("rlv -")
	e.op("rpall -")
	e.op("rpostm - e")
	for _, d := range lbs {
		nh := h.HexS(d.name)
		set := map[string]bool{}
		for _, l := range lsets {
			for i := 0; i+1 < len(l); i += 2 {
				if l[i] == d.name {
					set[l[i+1]] = true
				}
			}
		}
		var vals []string
		for v := range set {
			vals = append(vals, v)
		}
		sort.Strings(vals)
		c.Count(fmt.Sprintf("directed-values:%d", len(vals)))
		e.op("rlv " + nh)
		e.op("rpall " + nh)
		for _, v := range vals { // every value, in particular the last and the second-to-last one
			e.op("rpost " + nh + " " + h.HexS(v))
		}
		last := vals[len(vals)-1]
		prev := vals[(len(vals)+len(vals)-2)%len(vals)]
		at := func(k int) string { return vals[k%len(vals)] }
		for _, m := range [][2]string{
			{"ge", last}, {"ge", prev}, {"eq", last}, {"eq", prev}, {"ne", last}, {"ne", prev}, {"lt", last},
			{"ge", vals[0]}, {"lt", vals[0]}, {"ge", at(31)}, {"ge", at(32)}, {"lt", at(33)},
			{"ge", h.Pick(r, vals)}, {"lt", h.Pick(r, vals)}, {"eq", "no-such-value"}, {"ge", last + "\x00"},
		} {
			e.op("rpm " + nh + " " + m[0] + " " + h.HexS(m[1]))
		}
		var rnd []string
		for k := 0; k < 5; k++ {
			rnd = append(rnd, h.Pick(r, vals))
		}
		for _, vs := range [][]string{
			{last}, {prev, last}, {last, prev}, {vals[0], last}, {at(30), at(31), at(32), at(33)}, {at(63), at(64), at(65)},
			rnd, vals, {"!before-all", last}, {last, "~past-the-end"}, {"~past-the-end"}, {prev, "no-such-value", last}, {last, last}, {},
		} {
			e.op("rpostm " + nh + " " + hexList(vs))
		}
	}
	e.op("rlv " + h.HexS("no-such-name"))
	e.op("rpall " + h.HexS("no-such-name"))
	e.op("rpm " + h.HexS("no-such-name") + " ge -")
	e.op("rpostm " + h.HexS("no-such-name") + " " + hexList([]string{"00"}))
	c.Count("directed:" + sp.String())
	c.NonTrivial("directed " + sp.String())
}

var kinds = []string{"b0", "b7", "z"}

func outcome(o string) string {
	f := strings.Fields(o)
	if len(f) == 0 {
		return "?"
	}
	if f[0] == "ok" {
		return "same-or-data"
	}
	return f[0]
}

func (e *env) sweepIndex(stride int) {
	c := e.c
	toc, err := index.NewTOCFromByteSlice(memBytes(e.idx))
	fatal(err)
	type region struct {
		lo, hi int
		name   string
		k      int
	}
	var regs []region
	for k, id := range e.ids {
		off := int(id) * 16
		l, n := binary.Uvarint(e.idx[off:])
		regs = append(regs, region{off, off + n, "series-len", k}, region{off + n, off + n + int(l), "series-body", k}, region{off + n + int(l), off + n + int(l) + 4, "series-crc", k})
	}
	so := int(toc.Symbols)
	sl := int(binary.BigEndian.Uint32(e.idx[so:]))
	regs = append(regs, region{0, 5, "header", -1}, region{so, so + 4, "symbols-len", -1}, region{so + 4, so + 4 + sl, "symbols-body", -1}, region{so + 4 + sl, so + 8 + sl, "symbols-crc", -1})
	po := int(toc.PostingsTable)
	pl := int(binary.BigEndian.Uint32(e.idx[po:]))
	regs = append(regs, region{po, po + 4, "table-len", -1}, region{po + 4, po + 4 + pl, "table-body", -1}, region{po + 4 + pl, po + 8 + pl, "table-crc", -1})
	regs = append(regs, region{int(toc.Postings), po, "postings", -1}, region{len(e.idx) - 52, len(e.idx) - 4, "toc-body", -1}, region{len(e.idx) - 4, len(e.idx), "toc-crc", -1})
	find := func(pos int) region {
		for _, rg := range regs {
			if pos >= rg.lo && pos < rg.hi {
				return rg
			}
		}
		return region{name: "padding", k: -1}
	}
	for pos := c.Rng.Intn(stride); pos < len(e.idx); pos += stride {
		rg := find(pos)
		for _, kind := range kinds {
			if kind == "z" && e.idx[pos] == 0 {
				continue // no change
			}
			var o string
			if rg.k >= 0 {
				o = e.op(fmt.Sprintf("dmgi %d %s ser %d", pos, kind, rg.k))
			} else {
				o = e.op(fmt.Sprintf("dmgi %d %s all", pos, kind))
			}
			c.Count("dmgi:" + rg.name + ":" + outcome(o))
		}
	}
}

func (e *env) sweepChunks(stride int) {
	c := e.c
	// every re-open maps all segment files: in the quick tier about 60 positions per block
	total := 0
	for _, seg := range e.segs {
		total += len(seg)
	}
	if stride > 1 && total/60 > stride {
		stride = total / 60
	}
	if stride == 1 && total > 400 {
		stride = total / 400 // thorough: all positions of small files, about 400 of larger ones
	}
	for sg, seg := range e.segs {
		type region struct {
			lo, hi int
			name   string
			ref    uint64
		}
		var regs []region
		for _, ref := range e.refs {
			if int(ref>>32) != sg {
				continue
			}
			off := int(ref & 0xffffffff)
			l, n := binary.Uvarint(seg[off:])
			regs = append(regs, region{off, off + n, "chunk-len", ref}, region{off + n, off + n + 1 + int(l), "chunk-body", ref}, region{off + n + 1 + int(l), off + n + 1 + int(l) + 4, "chunk-crc", ref})
		}
		for pos := c.Rng.Intn(stride); pos < len(seg); pos += stride {
			name, target := "segment-header", "-"
			for _, rg := range regs {
				if pos >= rg.lo && pos < rg.hi {
					name, target = rg.name, strconv.FormatUint(rg.ref, 10)
				}
			}
			if len(seg) > 3000 && pos%7 != 0 {
				continue
			}
			for _, kind := range kinds {
				if kind == "z" && seg[pos] == 0 {
					continue
				}
				o := e.op(fmt.Sprintf("dmgc %d %d %s %s", sg, pos, kind, target))
				c.Count("dmgc:" + name + ":" + outcome(o))
			}
		}
	}
}

var valueBits = []uint64{0, 0x8000000000000000, 0x3ff0000000000000, 0xbff0000000000000, 0x3ff8000000000000, 0x7ff0000000000000, 0xfff0000000000000,
	0x7ff8000000000001, 0x7ff0000000000002, 0x0000000000000001, 0x7fefffffffffffff, 0x40f86a0000000000}

// genWriterCase: samples → tsdb.BlockWriter → block → OpenBlock + querier (twice), then compaction of one or
// two such blocks and the same query on the result.
func genWriterCase(c *h.Ctx, id string, thorough bool) {
	r := c.Rng
	c.Case(id)
	e := &env{c: c, dir: h.TempDir("verif-block-")}
	defer e.close()
	base := h.PickI64(r, []int64{0, -1500000, -3000000, 1600000000000, 1 << 40, -(1 << 40)})
	lsets := genLsets(r, 1+r.Intn(5), false)
	nblocks := 1 + r.Intn(2)
	overlap := r.Chance(40)
	total := 0
	for b := 0; b < nblocks; b++ {
		e.op("bw")
		lo := base + int64(b)*3000000
		if overlap {
			lo = base + int64(b) // interleaved: block 0 even offsets, block 1 odd offsets
		}
		empty := true
		for _, l := range lsets {
			if r.Chance(25) && !(b == 0 && empty) {
				continue // series absent from this block
			}
			n := 1 + r.Intn(20)
			if r.Chance(15) {
				n = 121 + r.Intn(140) // more than one chunk
			}
			t := lo + 2*int64(r.Intn(50))
			for k := 0; k < n && t < lo+2900000; k++ {
				v := h.Pick(r, valueBits)
				if r.Chance(40) {
					v = math.Float64bits(float64(r.Intn(1000)) / 4)
				}
				if r.Chance(5) {
					v = r.U64()
				}
				o := e.op(fmt.Sprintf("app %s %d %016x", lsetStr(l), t, v))
				c.Count("app:" + o)
				empty = false
				total++
				if r.Chance(3) { // same timestamp again: same value is accepted silently, another one is an error
					v2 := v
					if r.Bool() {
						v2 = v ^ 1
					}
					o := e.op(fmt.Sprintf("app %s %d %016x", lsetStr(l), t, v2))
					c.Count("app-dup:" + o)
				}
				if r.Chance(2) { // older than the last sample of the series
					o := e.op(fmt.Sprintf("app %s %d %016x", lsetStr(l), t-2, v))
					c.Count("app-ooo:" + o)
				}
				t += 2 * int64(1+r.Intn(2000))
			}
		}
		o := e.op("flush")
		c.Count("flush:" + o)
	}
	for n := 1; n <= len(e.blocks); n++ {
		e.op(fmt.Sprintf("q %d", n))
		e.op(fmt.Sprintf("q %d", n)) // the block is opened again
	}
	if len(e.blocks) > 0 {
		var ns []string
		for n := 1; n <= len(e.blocks); n++ {
			ns = append(ns, strconv.Itoa(n))
		}
		o := e.op("compact " + strings.Join(ns, ","))
		c.Count("compact:" + o)
		if o == "ok" {
			e.op(fmt.Sprintf("q %d", len(e.blocks)))
			e.op(fmt.Sprintf("q %d", len(e.blocks)))
		}
	}
	c.NonTrivial(fmt.Sprintf("writer blocks=%d overlap=%v samples=%d series=%d", nblocks, overlap, total, len(lsets)))
}

func replayCase(c *h.Ctx, lines []string) {
	c.Case(strings.TrimPrefix(lines[0], "case "))
	e := &env{c: c, dir: h.TempDir("verif-block-")}
	defer e.close()
	for _, l := range lines[1:] {
		e.op(l)
	}
}

var _ = crc32.Castagnoli

func main() {
	if pf := os.Getenv("VERIF_PROF"); pf != "" {
		f, _ := os.Create(pf)
		pprof.StartCPUProfile(f)
		defer pprof.StopCPUProfile()
	}
	c := h.Init()
	if c.Replay != "" {
		os.Setenv("TMPDIR", h.TempDir("verif-block-tmp-"))
		for _, lines := range c.ReplayCases() {
			replayCase(c, lines)
		}
		c.Finish()
		os.RemoveAll(os.Getenv("TMPDIR"))
		return
	}
	os.Setenv("TMPDIR", h.TempDir("verif-block-tmp-")) // BlockWriter keeps its head chunks under os.TempDir()
	defer os.RemoveAll(os.Getenv("TMPDIR"))
	for i := 0; i < c.N; i++ {
		if i%4 == 3 {
			genWriterCase(c, fmt.Sprintf("w%d-%d", c.Seed, i), c.Tier == "thorough")
		} else {
			// every 8th case is a block with 30-75 series: more than symbolFactor symbols / label values
			genCase(c, fmt.Sprintf("b%d-%d", c.Seed, i), c.Tier == "thorough", i%8 == 5)
		}
	}
	// directed blocks around the symbolFactor boundaries: a PRNG stream of their own, the cases above
	// are the same with and without them
	dr := h.NewRng(c.Seed*0x9e3779b97f4a7c15 + 24)
	for i, sp := range directedSpecs(c.Tier == "thorough") {
		genDirectedCase(c, dr, fmt.Sprintf("d%d-%d", c.Seed, i), sp)
	}
	c.Finish()
}
