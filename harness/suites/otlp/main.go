// Suite otlp (C43): OTLP -> Prometheus conversion.
//
//	layout <offset> <scaleDown> <adjust 0|1> <counts>            kernel: convertBucketsLayout (hook)
//	time <ns>                                                   kernel: convertTimeStamp (hook)
//	exp <allowDelta> <temp> <scale> <flags> <hasSum> <sumBits> <count> <zeroCount> <ts> <st> <pOff> <pCounts> <nOff> <nCounts>
//	nhcb <allowDelta> <temp> <flags> <hasSum> <sumBits> <count> <ts> <st> <boundsBits> <counts>
//	num <gauge|sum> <allowDelta> <temp> <int|double|empty> <value> <flags> <ts> <st>
//
// exp/nhcb/num go end-to-end through PrometheusConverter.FromMetrics (pmetric builders) into a
// recording AppenderV2. Lists are comma separated, "-" = empty; floats are 16-hex-digit bit patterns.
package main

import (
	"context"
	"fmt"
	"math"
	"strconv"
	"strings"

	"go.opentelemetry.io/collector/pdata/pcommon"
	"go.opentelemetry.io/collector/pdata/pmetric"

	"github.com/prometheus/prometheus/model/histogram"
	"github.com/prometheus/prometheus/model/labels"
	"github.com/prometheus/prometheus/storage"
	prw "github.com/prometheus/prometheus/storage/remote/otlptranslator/prometheusremotewrite"

	"verif/harness/h"
)

// ---------------------------------------------------------------- recording appender

type rec struct {
	st, t int64
	v     float64
	h     *histogram.Histogram
	fh    *histogram.FloatHistogram
}

type recApp struct{ recs []rec }

func (a *recApp) Append(_ storage.SeriesRef, _ labels.Labels, st, t int64, v float64, hh *histogram.Histogram, fh *histogram.FloatHistogram, _ storage.AppendV2Options) (storage.SeriesRef, error) {
	if hh != nil {
		hh = hh.Copy()
	}
	a.recs = append(a.recs, rec{st: st, t: t, v: v, h: hh, fh: fh})
	return storage.SeriesRef(len(a.recs)), nil
}
func (*recApp) Commit() error   { return nil }
func (*recApp) Rollback() error { return nil }

// ---------------------------------------------------------------- rendering / parsing

func spansStr(sp []histogram.Span) string {
	if len(sp) == 0 {
		return "-"
	}
	p := make([]string, len(sp))
	for i, s := range sp {
		p[i] = fmt.Sprintf("%d:%d", s.Offset, s.Length)
	}
	return strings.Join(p, ",")
}

func i64sStr(xs []int64) string {
	if len(xs) == 0 {
		return "-"
	}
	p := make([]string, len(xs))
	for i, x := range xs {
		p[i] = strconv.FormatInt(x, 10)
	}
	return strings.Join(p, ",")
}

func u64sStr(xs []uint64) string {
	if len(xs) == 0 {
		return "-"
	}
	p := make([]string, len(xs))
	for i, x := range xs {
		p[i] = strconv.FormatUint(x, 10)
	}
	return strings.Join(p, ",")
}

func bits(f float64) string { return fmt.Sprintf("%016x", math.Float64bits(f)) }

func bitsList(fs []float64) string {
	if len(fs) == 0 {
		return "-"
	}
	p := make([]string, len(fs))
	for i, f := range fs {
		p[i] = bits(f)
	}
	return strings.Join(p, ",")
}

func parseU64s(s string) []uint64 {
	if s == "-" {
		return nil
	}
	parts := strings.Split(s, ",")
	out := make([]uint64, len(parts))
	for i, p := range parts {
		out[i], _ = strconv.ParseUint(p, 10, 64)
	}
	return out
}

func parseBitsList(s string) []float64 {
	if s == "-" {
		return nil
	}
	parts := strings.Split(s, ",")
	out := make([]float64, len(parts))
	for i, p := range parts {
		b, _ := strconv.ParseUint(p, 16, 64)
		out[i] = math.Float64frombits(b)
	}
	return out
}

func pI(s string) int64    { v, _ := strconv.ParseInt(s, 10, 64); return v }
func pU(s string) uint64   { v, _ := strconv.ParseUint(s, 10, 64); return v }
func pBits(s string) float64 { b, _ := strconv.ParseUint(s, 16, 64); return math.Float64frombits(b) }

func temporality(s string) pmetric.AggregationTemporality {
	switch s {
	case "cum":
		return pmetric.AggregationTemporalityCumulative
	case "delta":
		return pmetric.AggregationTemporalityDelta
	}
	return pmetric.AggregationTemporalityUnspecified
}

func newMetric() (pmetric.Metrics, pmetric.Metric) {
	md := pmetric.NewMetrics()
	m := md.ResourceMetrics().AppendEmpty().ScopeMetrics().AppendEmpty().Metrics().AppendEmpty()
	m.SetName("m")
	return md, m
}

// convert runs the real converter and renders what reached the appender.
func convert(md pmetric.Metrics, allowDelta, nhcb bool) string {
	app := &recApp{}
	var out string
	p, val := h.Try(func() {
		conv := prw.NewPrometheusConverter(app)
		annots, err := conv.FromMetrics(context.Background(), md, prw.Settings{
			AllowDeltaTemporality:   allowDelta,
			ConvertHistogramsToNHCB: nhcb,
			DisableTargetInfo:       true,
		})
		e := 0
		if err != nil {
			e = 1
		}
		if len(app.recs) == 0 {
			out = fmt.Sprintf("none err=%d", e)
			return
		}
		if len(app.recs) != 1 {
			out = fmt.Sprintf("multi n=%d", len(app.recs))
			return
		}
		r := app.recs[0]
		switch {
		case r.fh != nil:
			out = "floathist"
		case r.h != nil:
			hh := r.h
			out = fmt.Sprintf("hist err=%d warn=%d hint=%d schema=%d zt=%s zc=%d count=%d sum=%s t=%d st=%d ps=%s pd=%s ns=%s nd=%s cv=%s",
				e, len(annots), hh.CounterResetHint, hh.Schema, bits(hh.ZeroThreshold), hh.ZeroCount, hh.Count, bits(hh.Sum), r.t, r.st,
				spansStr(hh.PositiveSpans), i64sStr(hh.PositiveBuckets), spansStr(hh.NegativeSpans), i64sStr(hh.NegativeBuckets), bitsList(hh.CustomValues))
		default:
			out = fmt.Sprintf("float err=%d warn=%d v=%s t=%d st=%d", e, len(annots), bits(r.v), r.t, r.st)
		}
	})
	if p {
		return "panic " + h.HexS(fmt.Sprint(val))
	}
	return out
}

func runOp(c *h.Ctx, op string) string {
	f := strings.Fields(op)
	switch f[0] {
	case "layout":
		if len(f) != 5 {
			return "bad-op"
		}
		var out string
		p, val := h.Try(func() {
			sp, ds := prw.VerifConvertBucketsLayout(parseU64s(f[4]), int32(pI(f[1])), int32(pI(f[2])), f[3] == "1")
			out = "ok " + spansStr(sp) + " " + i64sStr(ds)
		})
		if p {
			return "panic " + h.HexS(fmt.Sprint(val))
		}
		return out
	case "time":
		return fmt.Sprintf("ok %d", prw.VerifConvertTimeStamp(pU(f[1])))
	case "exp":
		if len(f) != 15 {
			return "bad-op"
		}
		md, m := newMetric()
		eh := m.SetEmptyExponentialHistogram()
		eh.SetAggregationTemporality(temporality(f[2]))
		pt := eh.DataPoints().AppendEmpty()
		pt.SetScale(int32(pI(f[3])))
		pt.SetFlags(pmetric.DefaultDataPointFlags.WithNoRecordedValue(f[4] == "1"))
		if f[5] == "1" {
			pt.SetSum(pBits(f[6]))
		}
		pt.SetCount(pU(f[7]))
		pt.SetZeroCount(pU(f[8]))
		pt.SetTimestamp(pcommon.Timestamp(pU(f[9])))
		pt.SetStartTimestamp(pcommon.Timestamp(pU(f[10])))
		pt.Positive().SetOffset(int32(pI(f[11])))
		pt.Positive().BucketCounts().FromRaw(parseU64s(f[12]))
		pt.Negative().SetOffset(int32(pI(f[13])))
		pt.Negative().BucketCounts().FromRaw(parseU64s(f[14]))
		return convert(md, f[1] == "1", false)
	case "nhcb":
		if len(f) != 11 {
			return "bad-op"
		}
		md, m := newMetric()
		eh := m.SetEmptyHistogram()
		eh.SetAggregationTemporality(temporality(f[2]))
		pt := eh.DataPoints().AppendEmpty()
		pt.SetFlags(pmetric.DefaultDataPointFlags.WithNoRecordedValue(f[3] == "1"))
		if f[4] == "1" {
			pt.SetSum(pBits(f[5]))
		}
		pt.SetCount(pU(f[6]))
		pt.SetTimestamp(pcommon.Timestamp(pU(f[7])))
		pt.SetStartTimestamp(pcommon.Timestamp(pU(f[8])))
		pt.ExplicitBounds().FromRaw(parseBitsList(f[9]))
		pt.BucketCounts().FromRaw(parseU64s(f[10]))
		return convert(md, f[1] == "1", true)
	case "num":
		if len(f) != 9 {
			return "bad-op"
		}
		md, m := newMetric()
		var pt pmetric.NumberDataPoint
		if f[1] == "gauge" {
			pt = m.SetEmptyGauge().DataPoints().AppendEmpty()
		} else {
			s := m.SetEmptySum()
			s.SetAggregationTemporality(temporality(f[3]))
			s.SetIsMonotonic(true)
			pt = s.DataPoints().AppendEmpty()
		}
		switch f[4] {
		case "int":
			pt.SetIntValue(pI(f[5]))
		case "double":
			pt.SetDoubleValue(pBits(f[5]))
		}
		pt.SetFlags(pmetric.DefaultDataPointFlags.WithNoRecordedValue(f[6] == "1"))
		pt.SetTimestamp(pcommon.Timestamp(pU(f[7])))
		pt.SetStartTimestamp(pcommon.Timestamp(pU(f[8])))
		return convert(md, f[2] == "1", false)
	}
	return "bad-op"
}

func runCase(c *h.Ctx, ops []string) {
	for _, op := range ops {
		out := runOp(c, op)
		c.Count("out:" + strings.Fields(out)[0])
		c.Op(op, out)
	}
}

// ---------------------------------------------------------------- generators

// genCounts: dense bucket array with zero runs of length 1-6 inside and at the ends, empty arrays,
// single buckets, all-zero arrays, large counts (the total stays below 2^62).
func genCounts(r *h.Rng, c *h.Ctx) []uint64 {
	switch r.Intn(20) {
	case 0:
		c.Count("counts:empty")
		return nil
	case 1:
		c.Count("counts:single")
		return []uint64{uint64(r.Intn(5))}
	case 2:
		c.Count("counts:allzero")
		return make([]uint64, 1+r.Intn(12))
	}
	val := func() uint64 {
		switch r.Intn(10) {
		case 0:
			return uint64(1) << uint(20+r.Intn(37)) // large, < 2^57
		case 1:
			return 1
		}
		return uint64(1 + r.Intn(9))
	}
	var out []uint64
	zeros := func() {
		n := 1 + r.Intn(6)
		for i := 0; i < n; i++ {
			out = append(out, 0)
		}
	}
	if r.Chance(45) {
		zeros()
		c.Count("counts:leading-zeros")
	}
	blocks := 1 + r.Intn(4)
	for b := 0; b < blocks; b++ {
		n := 1 + r.Intn(5)
		for i := 0; i < n; i++ {
			out = append(out, val())
		}
		if b+1 < blocks {
			zeros()
		}
	}
	if r.Chance(45) {
		zeros()
		c.Count("counts:trailing-zeros")
	}
	return out
}

func genOffset(r *h.Rng, k int64, n int) int64 {
	switch r.Intn(10) {
	case 0, 1: // around a multiple of 2^k
		m := r.Range(-6, 6) * (int64(1) << uint(k))
		o := m + r.Range(-2, 2)
		if o > -(1<<30) && o < (1<<30) {
			return o
		}
		return r.Range(-40, 40)
	case 2:
		return h.PickI64(r, []int64{-(1 << 31), -(1 << 31) + 1, -(1 << 30), (1 << 30), (1 << 31) - 2 - int64(n) - 1, -1, 0, 1})
	case 3:
		return r.Range(-100000, 100000)
	}
	return r.Range(-40, 40)
}

var tsPool = []uint64{0, 1, 999_999, 1_000_000, 1_000_001, 1_999_999, 1_700_000_000_123_456_789, 1<<63 - 1, 1 << 63, 1<<63 + 999_999, 1<<63 + 1_000_000, math.MaxUint64, math.MaxUint64 - 999_999, math.MaxUint64 - 1_000_000}

func genTs(r *h.Rng) uint64 {
	switch r.Intn(4) {
	case 0:
		return h.Pick(r, tsPool)
	case 1:
		return r.U64()
	}
	return uint64(r.Range(0, 2_000_000_000)) * uint64(r.Range(1, 1_000_000_000))
}

var floatPool = []uint64{0, 0x8000000000000000, 0x3ff0000000000000, 0xbff0000000000000, 0x7ff0000000000000, 0xfff0000000000000,
	0x7ff8000000000001, 0x7ff0000000000002, 0x7ff8000000000000, 0x0000000000000001, 0x7fefffffffffffff, 0x4059000000000000}

func genFloatBits(r *h.Rng) uint64 {
	if r.Chance(50) {
		return h.Pick(r, floatPool)
	}
	if r.Chance(50) {
		return math.Float64bits(float64(r.Range(-1000, 1000)) / 8)
	}
	return r.U64()
}

func genTemp(r *h.Rng) string {
	switch r.Intn(7) {
	case 0:
		return "unspec"
	case 1, 2, 3:
		return "delta"
	}
	return "cum"
}

func b01(b bool) string {
	if b {
		return "1"
	}
	return "0"
}

func genLayout(r *h.Rng, c *h.Ctx) string {
	counts := genCounts(r, c)
	k := int64(0)
	if r.Chance(70) {
		k = r.Range(0, 12)
	}
	adj := true
	if r.Chance(15) {
		adj, k = false, 0
	}
	off := genOffset(r, k, len(counts))
	c.Count(fmt.Sprintf("layout:k=%d", k))
	return fmt.Sprintf("layout %d %d %s %s", off, k, b01(adj), u64sStr(counts))
}

func genCountField(r *h.Rng) uint64 {
	switch r.Intn(5) {
	case 0:
		return 0
	case 1:
		return r.U64()
	}
	return uint64(r.Intn(1000))
}

func genExp(r *h.Rng, c *h.Ctx) string {
	scale := r.Range(-4, 20)
	if r.Chance(5) {
		scale = r.Range(-8, -5)
	}
	k := int64(0)
	if scale > 8 {
		k = scale - 8
	}
	pc, nc := genCounts(r, c), genCounts(r, c)
	if r.Chance(20) {
		nc = nil
	}
	if r.Chance(10) {
		pc = nil
	}
	c.Count(fmt.Sprintf("exp:scale=%d", scale))
	return fmt.Sprintf("exp %s %s %d %s %s %016x %d %d %d %d %d %s %d %s",
		b01(r.Chance(70)), genTemp(r), scale, b01(r.Chance(15)), b01(r.Chance(80)), genFloatBits(r),
		genCountField(r), genCountField(r), genTs(r), genTs(r),
		genOffset(r, k, len(pc)), u64sStr(pc), genOffset(r, k, len(nc)), u64sStr(nc))
}

func genNhcb(r *h.Rng, c *h.Ctx) string {
	counts := genCounts(r, c)
	nb := len(counts) - 1
	if r.Chance(15) || nb < 0 {
		nb = r.Intn(5)
	}
	bounds := make([]float64, nb)
	x := float64(r.Range(-20, 20))
	for i := range bounds {
		bounds[i] = x
		x += float64(r.Range(1, 8)) / 4
	}
	return fmt.Sprintf("nhcb %s %s %s %s %016x %d %d %d %s %s",
		b01(r.Chance(70)), genTemp(r), b01(r.Chance(15)), b01(r.Chance(80)), genFloatBits(r),
		genCountField(r), genTs(r), genTs(r), bitsList(bounds), u64sStr(counts))
}

var intPool = []int64{0, 1, -1, 1 << 53, 1<<53 + 1, 1<<53 + 2, 1<<53 + 3, -(1<<53 + 1), 1<<54 + 2, 1<<54 + 6, math.MaxInt64, math.MinInt64, math.MaxInt64 - 511, math.MaxInt64 - 512, math.MaxInt64 - 513, 1<<62 + 1<<9, 1<<62 + 1<<9 + 1, 1<<62 + 3<<8}

func genNum(r *h.Rng, c *h.Ctx) string {
	kind := "gauge"
	if r.Bool() {
		kind = "sum"
	}
	vt := h.Pick(r, []string{"int", "int", "double", "double", "empty"})
	val := "0"
	switch vt {
	case "int":
		switch r.Intn(3) {
		case 0:
			val = strconv.FormatInt(h.PickI64(r, intPool), 10)
		case 1:
			val = strconv.FormatInt(int64(r.U64()), 10)
		default:
			val = strconv.FormatInt(r.Range(-100000, 100000), 10)
		}
	case "double":
		val = fmt.Sprintf("%016x", genFloatBits(r))
	}
	c.Count("num:" + kind + ":" + vt)
	return fmt.Sprintf("num %s %s %s %s %s %s %d %d", kind, b01(r.Chance(70)), genTemp(r), vt, val, b01(r.Chance(20)), genTs(r), genTs(r))
}

func main() {
	c := h.Init()
	defer c.Finish()
	if c.Replay != "" {
		for _, cs := range c.ReplayCases() {
			c.Case(strings.TrimPrefix(cs[0], "case "))
			runCase(c, cs[1:])
		}
		return
	}
	r := c.Rng
	for i := 0; i < c.N; i++ {
		c.Case(fmt.Sprintf("g%d", i))
		var op string
		switch x := r.Intn(100); {
		case x < 40:
			op = genLayout(r, c)
		case x < 70:
			op = genExp(r, c)
		case x < 82:
			op = genNhcb(r, c)
		case x < 95:
			op = genNum(r, c)
		default:
			op = fmt.Sprintf("time %d", genTs(r))
		}
		c.Count("op:" + strings.Fields(op)[0])
		c.NonTrivial(op)
		runCase(c, []string{op})
	}
}
