// Suite promqlops (C29): aggregations and binary / set operators evaluated as INSTANT queries by the real
// promql.Engine over a real TSDB head.
//
// One case = one set of float series at one timestamp, plus queries over them.
//
// ops:  s <labelset> <f64 hex>                   one series (labelset = __name__=m1,a=x,b=y ; names sorted)
//       q agg <op> <none|by|without> <lbls|-> <param|-> <operand>
//       q bin <op> <bool 0|1> <none|on|ignoring> <lbls|-> <one|left|right> <incl|-> <fill> <operandL> <operandR>
//       q set <and|or|unless> <none|on|ignoring> <lbls|-> <operandL> <operandR>
//       q vs  <op> <bool 0|1> <swap 0|1> <scalar f64 hex> <operand>
//         operand = S:<name>|<name>…   the selector {__name__=~"…"}
//                 | N:<name>|<name>…   ({__name__=~"…"} * 1)   (same values, metric name dropped)
//         fill    = - | l:<hex> | r:<hex> | b:<hexL>:<hexR>
//         an optional trailing token obs=<hex>,<hex>… records observed values (see OpsSuite.lean, avg/div/stdvar tolerance)
// out:  s -> ok | dup
//       q -> vec <labelset>:<f64 hex> …          sorted by label set (topk/bottomk: `ord …` in engine order)
//            err <dup-series|multi-match-one|multi-match-group|same-labelset|parse|other>
package main

import (
	"context"
	"fmt"
	"math"
	"os"
	"sort"
	"strconv"
	"strings"
	"time"

	"github.com/prometheus/prometheus/model/labels"
	"github.com/prometheus/prometheus/promql"
	"github.com/prometheus/prometheus/promql/parser"
	"github.com/prometheus/prometheus/tsdb"
	"github.com/prometheus/prometheus/util/teststorage"

	"verif/harness/h"
)

var (
	metricNames = []string{"m1", "m2", "n1", "n2"}
	// "Z" sorts before "__name__" in byte order: matching-label lists that contain it exercise the code's
	// assumption that the (sorted) list with "__name__" added stays sorted.
	labelNames  = []string{"a", "b", "c", "Z"}
	labelVals   = []string{"", "x", "y", "z"}
)

const (
	caseSpacingMs = 10_000
	casesPerStore = 3000
)

type env struct {
	st     *teststorage.TestStorage
	eng    *promql.Engine
	serial int64 // cases run against the current storage
}

func fatal(err error) {
	if err != nil {
		fmt.Fprintln(os.Stderr, "harness error:", err)
		os.Exit(3)
	}
}

func parseLabelset(s string) (labels.Labels, bool) {
	if s == "-" {
		return labels.EmptyLabels(), true
	}
	var kv []string
	for _, p := range strings.Split(s, ",") {
		i := strings.IndexByte(p, '=')
		if i <= 0 || i == len(p)-1 {
			return labels.EmptyLabels(), false
		}
		kv = append(kv, p[:i], p[i+1:])
	}
	return labels.FromStrings(kv...), true
}

func showLabelset(l labels.Labels) string {
	var parts []string
	l.Range(func(x labels.Label) { parts = append(parts, x.Name+"="+x.Value) })
	if len(parts) == 0 {
		return "-"
	}
	return strings.Join(parts, ",")
}

// universe returns every label set the generator can produce, in labels.Compare order.
func universe() []labels.Labels {
	var out []labels.Labels
	for _, n := range metricNames {
		for _, a := range labelVals {
			for _, b := range labelVals {
				for _, c := range labelVals {
					for _, z := range labelVals[:3] {
						kv := []string{"__name__", n}
						for i, v := range []string{a, b, c, z} {
							if v != "" {
								kv = append(kv, labelNames[i], v)
							}
						}
						out = append(out, labels.FromStrings(kv...))
					}
				}
			}
		}
	}
	sort.Slice(out, func(i, j int) bool { return labels.Compare(out[i], out[j]) < 0 })
	return out
}

func (e *env) reset() {
	if e.st != nil {
		e.st.Close()
	}
	st, err := teststorage.NewWithError(func(opt *tsdb.Options) {
		opt.WALSegmentSize = -1
		opt.EnableExemplarStorage = false
	})
	fatal(err)
	st.DisableCompactions()
	e.st = st
	e.serial = 0
	// Series references (= the order in which an un-sorted Select returns series, = the input order of
	// every instant-query aggregation) are fixed here: all label sets of the universe are created in
	// labels.Compare order. The model uses that same order.
	app := st.Appender(context.Background())
	for _, l := range universe() {
		if _, err := app.Append(0, l, 0, 0); err != nil {
			fatal(err)
		}
	}
	fatal(app.Commit())
}

func newEnv() *env {
	e := &env{}
	e.eng = promql.NewEngine(promql.EngineOpts{
		MaxSamples:               1000000,
		Timeout:                  100 * time.Second,
		NoStepSubqueryIntervalFn: func(int64) int64 { return 60000 },
		EnableAtModifier:         true,
		EnableNegativeOffset:     true,
		LookbackDelta:            time.Second,
		Parser: parser.NewParser(parser.Options{
			EnableBinopFillModifiers:    true,
			EnableExperimentalFunctions: true,
		}),
	})
	e.reset()
	return e
}

func fmtNum(bits uint64) string {
	v := math.Float64frombits(bits)
	switch {
	case math.IsNaN(v):
		return "NaN"
	case math.IsInf(v, 1):
		return "Inf"
	case math.IsInf(v, -1):
		return "-Inf"
	}
	return strconv.FormatFloat(v, 'g', -1, 64)
}

func operandExpr(s string) (string, bool) {
	if len(s) < 3 || s[1] != ':' {
		return "", false
	}
	for _, n := range strings.Split(s[2:], "|") {
		ok := false
		for _, m := range metricNames {
			if n == m {
				ok = true
			}
		}
		if !ok {
			return "", false
		}
	}
	sel := `{__name__=~"` + s[2:] + `"}`
	switch s[0] {
	case 'S':
		return sel, true
	case 'N':
		return "(" + sel + " * 1)", true
	}
	return "", false
}

func lblList(s string) string {
	if s == "-" {
		return ""
	}
	return s
}

var binOps = map[string]string{"add": "+", "sub": "-", "mul": "*", "div": "/", "mod": "%",
	"eq": "==", "ne": "!=", "gt": ">", "lt": "<", "ge": ">=", "le": "<="}

var aggOps = map[string]bool{"sum": true, "avg": true, "min": true, "max": true, "count": true, "group": true,
	"stdvar": true, "topk": true, "bottomk": true, "quantile": true}

func matchClause(mode, lbls string) (string, bool) {
	switch mode {
	case "none":
		return "", true
	case "on", "ignoring":
		return " " + mode + "(" + lblList(lbls) + ")", true
	}
	return "", false
}

// buildQuery turns a structured query op into PromQL text; ordered = keep engine order in the output.
func buildQuery(f []string) (qs string, ordered, ok bool) {
	if len(f) < 2 {
		return "", false, false
	}
	switch f[1] {
	case "agg":
		if len(f) < 7 || !aggOps[f[2]] {
			return "", false, false
		}
		opnd, ok := operandExpr(f[6])
		if !ok {
			return "", false, false
		}
		mod := ""
		switch f[3] {
		case "none":
		case "by", "without":
			mod = " " + f[3] + " (" + lblList(f[4]) + ")"
		default:
			return "", false, false
		}
		switch f[2] {
		case "topk", "bottomk":
			k, err := strconv.ParseInt(f[5], 10, 64)
			if err != nil {
				return "", false, false
			}
			return fmt.Sprintf("%s%s (%d, %s)", f[2], mod, k, opnd), true, true
		case "quantile":
			bits, err := strconv.ParseUint(f[5], 16, 64)
			if err != nil {
				return "", false, false
			}
			return fmt.Sprintf("quantile%s (%s, %s)", mod, fmtNum(bits), opnd), false, true
		}
		return fmt.Sprintf("%s%s (%s)", f[2], mod, opnd), false, true
	case "bin":
		if len(f) < 11 {
			return "", false, false
		}
		sym, ok1 := binOps[f[2]]
		l, ok2 := operandExpr(f[9])
		r, ok3 := operandExpr(f[10])
		mc, ok4 := matchClause(f[4], f[5])
		if !ok1 || !ok2 || !ok3 || !ok4 {
			return "", false, false
		}
		q := l + " " + sym
		if f[3] == "1" {
			q += " bool"
		}
		q += mc
		switch f[6] {
		case "one":
		case "left", "right":
			q += " group_" + f[6] + "(" + lblList(f[7]) + ")"
		default:
			return "", false, false
		}
		if f[8] != "-" {
			p := strings.Split(f[8], ":")
			var vs []uint64
			for _, x := range p[1:] {
				b, err := strconv.ParseUint(x, 16, 64)
				if err != nil {
					return "", false, false
				}
				vs = append(vs, b)
			}
			switch {
			case p[0] == "l" && len(vs) == 1:
				q += " fill_left(" + fmtNum(vs[0]) + ")"
			case p[0] == "r" && len(vs) == 1:
				q += " fill_right(" + fmtNum(vs[0]) + ")"
			case p[0] == "b" && len(vs) == 2:
				q += " fill_left(" + fmtNum(vs[0]) + ") fill_right(" + fmtNum(vs[1]) + ")"
			default:
				return "", false, false
			}
		}
		return q + " " + r, false, true
	case "set":
		if len(f) < 7 {
			return "", false, false
		}
		l, ok2 := operandExpr(f[5])
		r, ok3 := operandExpr(f[6])
		mc, ok4 := matchClause(f[3], f[4])
		if (f[2] != "and" && f[2] != "or" && f[2] != "unless") || !ok2 || !ok3 || !ok4 {
			return "", false, false
		}
		return l + " " + f[2] + mc + " " + r, false, true
	case "vs":
		if len(f) < 7 {
			return "", false, false
		}
		sym, ok1 := binOps[f[2]]
		bits, err := strconv.ParseUint(f[5], 16, 64)
		opnd, ok2 := operandExpr(f[6])
		if !ok1 || err != nil || !ok2 {
			return "", false, false
		}
		if f[3] == "1" {
			sym += " bool"
		}
		num := fmtNum(bits)
		if f[4] == "1" {
			return "(" + num + ") " + sym + " " + opnd, false, true
		}
		return opnd + " " + sym + " (" + num + ")", false, true
	}
	return "", false, false
}

func classify(err error) string {
	m := err.Error()
	switch {
	case strings.Contains(m, "found duplicate series for the match group"):
		return "dup-series"
	case strings.Contains(m, "many-to-one matching must be explicit"):
		return "multi-match-one"
	case strings.Contains(m, "grouping labels must ensure unique matches"):
		return "multi-match-group"
	case strings.Contains(m, "vector cannot contain metrics with the same labelset"):
		return "same-labelset"
	}
	return "other"
}

func canonBits(v float64) uint64 {
	if math.IsNaN(v) {
		return 0x7ff8000000000001
	}
	b := math.Float64bits(v)
	if b == 1<<63 {
		return 0 // -0 printed as +0: the rational model has one zero
	}
	return b
}

func (e *env) query(qs string, ts int64, ordered bool) (string, []string) {
	q, err := e.eng.NewInstantQuery(context.Background(), e.st, nil, qs, time.UnixMilli(ts))
	if err != nil {
		return "err parse", nil
	}
	defer q.Close()
	res := q.Exec(context.Background())
	if res.Err != nil {
		return "err " + classify(res.Err), nil
	}
	vec, err := res.Vector()
	if err != nil {
		return "err other", nil
	}
	ents := make([]string, 0, len(vec))
	for _, s := range vec {
		if s.H != nil {
			return "err hist", nil
		}
		ents = append(ents, fmt.Sprintf("%s:%016x", showLabelset(s.Metric), canonBits(s.F)))
	}
	head := "ord"
	if !ordered {
		sort.Strings(ents)
		head = "vec"
	}
	var obs []string
	for _, en := range ents {
		obs = append(obs, en[strings.LastIndexByte(en, ':')+1:])
	}
	if len(ents) == 0 {
		return head, nil
	}
	return head + " " + strings.Join(ents, " "), obs
}

// needsObs: results that involve a division (or a non-dyadic accumulation) are compared up to the documented
// rounding tolerance: the observed values travel in the op line, as in suite promqlrate.
func needsObs(f []string) bool {
	if len(f) < 3 {
		return false
	}
	switch f[1] {
	case "agg":
		return f[2] == "avg" || f[2] == "stdvar" || f[2] == "quantile"
	case "bin", "vs":
		return f[2] == "div"
	}
	return false
}

func (e *env) runCase(c *h.Ctx, ops []string) {
	if e.serial >= casesPerStore {
		e.reset()
	}
	e.serial++
	ts := 100_000 + e.serial*caseSpacingMs
	seen := map[string]bool{}
	for _, op := range ops {
		f := strings.Fields(op)
		if len(f) == 0 {
			c.Op(op, "bad-op")
			continue
		}
		switch {
		case f[0] == "s" && len(f) == 3:
			l, ok := parseLabelset(f[1])
			bits, err := strconv.ParseUint(f[2], 16, 64)
			if !ok || err != nil || l.Get("__name__") == "" {
				c.Op(op, "bad-op")
				continue
			}
			key := showLabelset(l)
			if seen[key] {
				c.Op(op, "dup")
				continue
			}
			seen[key] = true
			app := e.st.Appender(context.Background())
			if _, err := app.Append(0, l, ts, math.Float64frombits(bits)); err != nil {
				fatal(err)
			}
			fatal(app.Commit())
			c.Op(op, "ok")
		case f[0] == "q":
			// strip a recorded observation (replays re-observe)
			if n := len(f); n > 0 && strings.HasPrefix(f[n-1], "obs=") {
				f = f[:n-1]
			}
			qs, ordered, ok := buildQuery(f)
			if !ok {
				c.Op(op, "bad-op")
				continue
			}
			var out string
			var obs []string
			if p, _ := h.Try(func() { out, obs = e.query(qs, ts, ordered) }); p {
				out = "panic"
			}
			c.Count("q:" + f[1] + ":" + f[2])
			of := strings.Fields(out)
			if of[0] == "err" {
				c.Count("out:err:" + of[1])
			} else {
				c.Count(fmt.Sprintf("out:%s:n=%d", of[0], len(of)-1))
			}
			op = strings.Join(f, " ")
			if needsObs(f) && c.Extra["exact"] != "1" {
				op += " obs=" + strings.Join(obs, ",")
			}
			c.Op(op, out)
		default:
			c.Op(op, "bad-op")
		}
	}
}

// ---------------------------------------------------------------- generator

func dyadic(r *h.Rng) float64 {
	k := r.Range(0, 1<<uint(r.Range(1, 12)))
	j := 0
	if r.Chance(30) {
		j = int(r.Range(1, 6))
	}
	v := float64(k) / float64(int64(1)<<uint(j))
	if r.Chance(35) && v != 0 { // never -0: the rational model has a single zero
		v = -v
	}
	return v
}

var specials = []float64{math.NaN(), math.NaN(), math.Inf(1), math.Inf(-1), math.Float64frombits(0x7ff8000000000123)}

func genValue(r *h.Rng, kind int) float64 {
	switch kind {
	case 0: // tie-heavy small integers
		return float64(r.Range(-1, 3))
	case 1:
		return dyadic(r)
	case 2: // specials mixed with small ints
		if r.Chance(45) {
			return h.Pick(r, specials)
		}
		return float64(r.Range(-2, 3))
	default:
		if r.Chance(10) {
			return h.Pick(r, specials)
		}
		if r.Chance(50) {
			return float64(r.Range(0, 4))
		}
		return dyadic(r)
	}
}

type series struct {
	l labels.Labels
	v float64
}

func genSeries(c *h.Ctx, r *h.Rng) []series {
	n := int(r.Range(3, 8))
	if r.Chance(8) {
		n = int(r.Range(0, 2))
	}
	kind := r.Intn(4)
	c.Count(fmt.Sprintf("series:kind%d", kind))
	// per-case label shape: which labels are used at all, and how many values each takes
	used := []bool{r.Chance(85), r.Chance(70), r.Chance(40), r.Chance(30)}
	nv := []int{int(r.Range(1, 3)), int(r.Range(1, 3)), int(r.Range(1, 2)), int(r.Range(1, 2))}
	names := metricNames
	if r.Chance(25) {
		names = []string{"m1", "n1"}
	}
	seen := map[string]bool{}
	var out []series
	for tries := 0; len(out) < n && tries < 40; tries++ {
		kv := []string{"__name__", h.Pick(r, names)}
		for i, ln := range labelNames {
			if !used[i] || r.Chance(20) {
				continue // absent label
			}
			kv = append(kv, ln, labelVals[1+r.Intn(nv[i])])
		}
		l := labels.FromStrings(kv...)
		k := showLabelset(l)
		if seen[k] {
			continue
		}
		seen[k] = true
		out = append(out, series{l, genValue(r, kind)})
	}
	sort.Slice(out, func(i, j int) bool { return labels.Compare(out[i].l, out[j].l) < 0 })
	return out
}

func genLabelList(r *h.Rng, allowName bool) string {
	pool := []string{"a", "b", "c", "a", "b", "d", "Z"}
	if allowName {
		pool = append(pool, "__name__")
	}
	n := r.Intn(4)
	if n == 0 {
		return "-"
	}
	var out []string
	for i := 0; i < n; i++ {
		out = append(out, h.Pick(r, pool)) // duplicates allowed: by (a, a) is legal PromQL
	}
	return strings.Join(out, ",")
}

func genOperand(r *h.Rng, side int) string {
	var names string
	switch x := r.Intn(100); {
	case x < 45:
		names = []string{"m1|m2", "n1|n2"}[side]
	case x < 65:
		names = []string{"m1", "n1"}[side]
	case x < 80:
		names = "m1|m2|n1|n2"
	case x < 90:
		names = []string{"m1|n1", "m2|n2"}[side]
	default:
		names = h.Pick(r, []string{"m1", "m2", "n1", "n2", "m1|n2", "m2|n1|n2"})
	}
	pn := 40
	if strings.Contains(names, "|") {
		pn = 8 // mostly ends in the same-labelset error
	}
	if r.Chance(pn) {
		return "N:" + names
	}
	return "S:" + names
}

func fillBits(r *h.Rng) string {
	v := float64(r.Range(-2, 5))
	if r.Chance(15) {
		v = h.Pick(r, []float64{math.NaN(), math.Inf(1), math.Inf(-1), 0.5})
	}
	return fmt.Sprintf("%016x", math.Float64bits(v))
}

func without(list []string, drop string) []string {
	var out []string
	for _, x := range list {
		if x != drop {
			out = append(out, x)
		}
	}
	return out
}

func genQuery(r *h.Rng) string {
	switch x := r.Intn(100); {
	case x < 38: // aggregation
		op := h.Pick(r, []string{"sum", "sum", "avg", "avg", "min", "max", "count", "group", "stdvar", "topk", "topk", "bottomk", "bottomk", "quantile"})
		mode := h.Pick(r, []string{"none", "by", "by", "without", "without"})
		lbls := "-"
		if mode != "none" {
			lbls = genLabelList(r, true)
		}
		param := "-"
		switch op {
		case "topk", "bottomk":
			param = strconv.FormatInt(h.PickI64(r, []int64{1, 1, 2, 2, 3, 0, -1, 10}), 10)
		case "quantile":
			param = fmt.Sprintf("%016x", math.Float64bits(h.Pick(r, []float64{0, 0.25, 0.5, 0.5, 0.75, 1, -1, 2, math.NaN()})))
		}
		return fmt.Sprintf("q agg %s %s %s %s %s", op, mode, lbls, param, genOperand(r, r.Intn(2)))
	case x < 75: // vector-vector arithmetic / comparison
		op := h.Pick(r, []string{"add", "add", "sub", "mul", "div", "mod", "eq", "ne", "gt", "lt", "ge", "le", "gt", "eq"})
		isCmp := len(op) == 2
		b := "0"
		if isCmp && r.Chance(40) {
			b = "1"
		}
		mode := h.Pick(r, []string{"none", "on", "on", "ignoring", "ignoring"})
		lbls := "-"
		if mode != "none" {
			lbls = genLabelList(r, true)
		}
		card := "one"
		incl := "-"
		if r.Chance(35) {
			card = h.Pick(r, []string{"left", "right"})
			incl = genLabelList(r, true)
			if mode == "none" { // group_x needs on/ignoring: `ignoring()` is the default matching
				mode = "ignoring"
			}
			if mode == "on" && incl != "-" && lbls != "-" {
				// "label X must not occur in ON and GROUP clause at once" is a parse error: keep them disjoint
				keep := strings.Split(incl, ",")
				for _, l := range strings.Split(lbls, ",") {
					keep = without(keep, l)
				}
				incl = strings.Join(keep, ",")
				if incl == "" {
					incl = "-"
				}
			}
		}
		fill := "-"
		if r.Chance(25) {
			switch r.Intn(3) {
			case 0:
				fill = "l:" + fillBits(r)
			case 1:
				fill = "r:" + fillBits(r)
			default:
				fill = "b:" + fillBits(r) + ":" + fillBits(r)
			}
		}
		return fmt.Sprintf("q bin %s %s %s %s %s %s %s %s %s", op, b, mode, lbls, card, incl, fill, genOperand(r, 0), genOperand(r, 1))
	case x < 90: // set operators
		op := h.Pick(r, []string{"and", "or", "unless"})
		mode := h.Pick(r, []string{"none", "on", "ignoring", "on", "ignoring"})
		lbls := "-"
		if mode != "none" {
			lbls = genLabelList(r, true)
		}
		return fmt.Sprintf("q set %s %s %s %s %s", op, mode, lbls, genOperand(r, 0), genOperand(r, 1))
	default: // vector-scalar
		op := h.Pick(r, []string{"add", "sub", "mul", "div", "mod", "eq", "ne", "gt", "lt", "ge", "le"})
		b := "0"
		if len(op) == 2 && r.Chance(40) {
			b = "1"
		}
		sw := "0"
		if r.Bool() {
			sw = "1"
		}
		v := float64(r.Range(-2, 4))
		if r.Chance(20) {
			v = h.Pick(r, []float64{math.NaN(), math.Inf(1), math.Inf(-1), 0.5, 0})
		}
		return fmt.Sprintf("q vs %s %s %s %016x %s", op, b, sw, math.Float64bits(v), genOperand(r, r.Intn(2)))
	}
}

func main() {
	c := h.Init()
	defer c.Finish()
	e := newEnv()
	defer func() { e.st.Close() }()
	if c.Replay != "" {
		for _, cs := range c.ReplayCases() {
			c.Case(strings.TrimPrefix(cs[0], "case "))
			e.runCase(c, cs[1:])
		}
		return
	}
	// h.NewRng(seed) starts SplitMix64 at seed*gamma+const, so the streams of seeds k and k+1 are the same
	// stream shifted by one draw; forking through one mixed output decorrelates the seeds.
	r := c.Rng.Fork()
	for i := 0; i < c.N; i++ {
		c.Case(fmt.Sprintf("r%d", i))
		ss := genSeries(c, r)
		var ops []string
		for _, s := range ss {
			ops = append(ops, fmt.Sprintf("s %s %016x", showLabelset(s.l), math.Float64bits(s.v)))
		}
		nq := int(r.Range(4, 8))
		for k := 0; k < nq; k++ {
			ops = append(ops, genQuery(r))
		}
		c.Count(fmt.Sprintf("len:%d", len(ss)))
		c.NonTrivial(strings.Join(ops, ";"))
		e.runCase(c, ops)
	}
}
