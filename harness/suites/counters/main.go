// Suite counters (C52): the db histories (floats incl. staleness markers, rollbacks, deletes, Compact,
// CleanTombstones, restart) on a real tsdb.DB opened with a private registry, plus
//       stat -> g=<series>,<stale>,<chunks>,<appenders> api=<NumSeries>,<NumStaleSeries> cmr=<created-removed> r=<series>,<stale>,<chunks>
// g = the prometheus_tsdb_head_* gauges, r = an independent recount walking the head through its index
// (all postings -> chunk metas per series, newest sample of the newest chunk read through the chunk reader,
// so tombstones play no role).
//
// ops:  cfg <chunkRange> <oooWindow> <samplesPerChunk>      (first line of a case; opens the DB)
//       begin | app <s> <t> <vbits-hex> | commit | rollback
//       del <mint> <maxt> <s|*> | compact | cleantomb | reopen
//       q <mint> <maxt>      -> s<i>=t:v,t:v;…   (series with ≥1 sample, by index; "-" if none)
//       win                  -> <headMinT> <headMaxT> <appendableMinValid|uninit>
package main

import (
	"context"
	"errors"
	"fmt"
	"math"
	"os"
	"sort"
	"strconv"
	"strings"

	"github.com/prometheus/client_golang/prometheus"
	"github.com/prometheus/common/promslog"

	"github.com/prometheus/prometheus/model/labels"
	"github.com/prometheus/prometheus/model/value"
	"github.com/prometheus/prometheus/tsdb/chunks"
	"github.com/prometheus/prometheus/tsdb/index"
	"github.com/prometheus/prometheus/storage"
	"github.com/prometheus/prometheus/tsdb"
	"github.com/prometheus/prometheus/tsdb/chunkenc"

	"verif/harness/h"
)

type env struct {
	dir  string
	db   *tsdb.DB
	opts *tsdb.Options
	app  storage.Appender
	reg  *prometheus.Registry
}

func (e *env) gauge(name string) float64 {
	mfs, err := e.reg.Gather()
	if err != nil {
		return -1
	}
	for _, mf := range mfs {
		if mf.GetName() == name && len(mf.GetMetric()) == 1 {
			m := mf.GetMetric()[0]
			if m.Gauge != nil {
				return m.Gauge.GetValue()
			}
			if m.Counter != nil {
				return m.Counter.GetValue()
			}
		}
	}
	return -1
}

// recount walks the real head: number of series, of series whose newest sample is a staleness marker,
// and of chunks.
func (e *env) recount() (ns, nstale, nch int, err error) {
	hd := e.db.Head()
	ir, err := hd.Index()
	if err != nil {
		return 0, 0, 0, err
	}
	defer ir.Close()
	cr, err := hd.Chunks()
	if err != nil {
		return 0, 0, 0, err
	}
	defer cr.Close()
	k, v := index.AllPostingsKey()
	p, err := ir.Postings(context.Background(), k, v)
	if err != nil {
		return 0, 0, 0, err
	}
	var b labels.ScratchBuilder
	var chks []chunks.Meta
	for p.Next() {
		chks = chks[:0]
		if err := ir.Series(p.At(), &b, &chks); err != nil {
			return 0, 0, 0, err
		}
		ns++
		nch += len(chks)
		if len(chks) == 0 {
			continue
		}
		c, it, err := cr.ChunkOrIterable(chks[len(chks)-1])
		if err != nil {
			return 0, 0, 0, err
		}
		var ci chunkenc.Iterator
		if c != nil {
			ci = c.Iterator(nil)
		} else {
			ci = it.Iterator(nil)
		}
		last, have := 0.0, false
		for ci.Next() == chunkenc.ValFloat {
			_, last = ci.At()
			have = true
		}
		if have && value.IsStaleNaN(last) {
			nstale++
		}
	}
	return ns, nstale, nch, p.Err()
}

func (e *env) open() error {
	e.reg = prometheus.NewRegistry()
	db, err := tsdb.Open(e.dir, promslog.NewNopLogger(), e.reg, e.opts, nil)
	if err != nil {
		return err
	}
	db.DisableCompactions()
	e.db = db
	return nil
}

func (e *env) close() {
	if e.app != nil {
		e.app.Rollback()
		e.app = nil
	}
	if e.db != nil {
		e.db.Close()
		e.db = nil
	}
}

func lbls(s int) labels.Labels {
	return labels.FromStrings("__name__", "m", "s", strconv.Itoa(s))
}

func errClass(err error) string {
	switch {
	case err == nil:
		return "ok"
	case errors.Is(err, storage.ErrOutOfBounds):
		return "oob"
	case errors.Is(err, storage.ErrOutOfOrderSample):
		return "ooo"
	case errors.Is(err, storage.ErrTooOldSample):
		return "tooold"
	case errors.Is(err, storage.ErrDuplicateSampleForTimestamp):
		return "dup"
	default:
		return "err:" + strings.ReplaceAll(strings.ReplaceAll(err.Error(), " ", "_"), "\t", "_")
	}
}

func (e *env) query(mint, maxt int64) string {
	q, err := e.db.Querier(mint, maxt)
	if err != nil {
		return "err:" + strings.ReplaceAll(err.Error(), " ", "_")
	}
	defer q.Close()
	ss := q.Select(context.Background(), true, nil, labels.MustNewMatcher(labels.MatchEqual, "__name__", "m"))
	type ser struct {
		idx int
		s   string
	}
	var out []ser
	for ss.Next() {
		s := ss.At()
		idx, _ := strconv.Atoi(s.Labels().Get("s"))
		it := s.Iterator(nil)
		var parts []string
		for vt := it.Next(); vt != chunkenc.ValNone; vt = it.Next() {
			if vt != chunkenc.ValFloat {
				parts = append(parts, "nonfloat")
				continue
			}
			t, v := it.At()
			parts = append(parts, fmt.Sprintf("%d:%016x", t, math.Float64bits(v)))
		}
		if it.Err() != nil {
			return "err:" + strings.ReplaceAll(it.Err().Error(), " ", "_")
		}
		if len(parts) > 0 {
			out = append(out, ser{idx, fmt.Sprintf("s%d=%s", idx, strings.Join(parts, ","))})
		}
	}
	if ss.Err() != nil {
		return "err:" + strings.ReplaceAll(ss.Err().Error(), " ", "_")
	}
	sort.SliceStable(out, func(i, j int) bool { return out[i].idx < out[j].idx })
	if len(out) == 0 {
		return "-"
	}
	parts := make([]string, len(out))
	for i, s := range out {
		parts[i] = s.s
	}
	return strings.Join(parts, ";")
}

func runCase(c *h.Ctx, ops []string) {
	dir := h.TempDir("vdb")
	e := &env{dir: dir}
	defer os.RemoveAll(dir)
	defer e.close()
	for _, op := range ops {
		f := strings.Fields(op)
		out := "bad-op"
		p, pv := h.Try(func() {
			switch f[0] {
			case "cfg":
				cr, _ := strconv.ParseInt(f[1], 10, 64)
				ooo, _ := strconv.ParseInt(f[2], 10, 64)
				spc, _ := strconv.Atoi(f[3])
				o := tsdb.DefaultOptions()
				o.MinBlockDuration, o.MaxBlockDuration = cr, cr
				o.OutOfOrderTimeWindow = ooo
				o.SamplesPerChunk = spc
				o.RetentionDuration = 0
				o.WALSegmentSize = 128 * 1024
				e.opts = o
				if err := e.open(); err != nil {
					out = "err:" + strings.ReplaceAll(err.Error(), " ", "_")
				} else {
					out = "ok"
				}
			case "begin":
				if e.app != nil {
					e.app.Rollback()
				}
				e.app = e.db.Appender(context.Background())
				out = "ok"
			case "app":
				s, _ := strconv.Atoi(f[1])
				t, _ := strconv.ParseInt(f[2], 10, 64)
				vb, _ := strconv.ParseUint(f[3], 16, 64)
				if e.app == nil {
					out = "noapp"
					return
				}
				_, err := e.app.Append(0, lbls(s), t, math.Float64frombits(vb))
				out = errClass(err)
				c.Count("app:" + out)
			case "commit":
				if e.app == nil {
					out = "noapp"
					return
				}
				out = errClass(e.app.Commit())
				e.app = nil
			case "rollback":
				if e.app == nil {
					out = "noapp"
					return
				}
				out = errClass(e.app.Rollback())
				e.app = nil
			case "del":
				mint, _ := strconv.ParseInt(f[1], 10, 64)
				maxt, _ := strconv.ParseInt(f[2], 10, 64)
				m := labels.MustNewMatcher(labels.MatchEqual, "__name__", "m")
				if f[3] != "*" {
					m = labels.MustNewMatcher(labels.MatchEqual, "s", f[3])
				}
				out = errClass(e.db.Delete(context.Background(), mint, maxt, m))
			case "compact":
				out = errClass(e.db.Compact(context.Background()))
				c.Count(fmt.Sprintf("blocks-after-compact:%d", len(e.db.Blocks())))
			case "cleantomb":
				out = errClass(e.db.CleanTombstones())
			case "reopen":
				if e.app != nil {
					e.app.Rollback()
					e.app = nil
				}
				if err := e.db.Close(); err != nil {
					out = "err:close:" + strings.ReplaceAll(err.Error(), " ", "_")
					return
				}
				e.db = nil
				if err := e.open(); err != nil {
					out = "err:" + strings.ReplaceAll(err.Error(), " ", "_")
				} else {
					out = "ok"
				}
			case "q":
				mint, _ := strconv.ParseInt(f[1], 10, 64)
				maxt, _ := strconv.ParseInt(f[2], 10, 64)
				out = e.query(mint, maxt)
				if out != "-" {
					c.Count("q:nonempty")
				} else {
					c.Count("q:empty")
				}
			case "stat":
				hd := e.db.Head()
				ns, nstale, nch, err := e.recount()
				if err != nil {
					out = "err:" + strings.ReplaceAll(err.Error(), " ", "_")
					return
				}
				out = fmt.Sprintf("g=%d,%d,%d,%d api=%d,%d cmr=%d r=%d,%d,%d",
					int64(e.gauge("prometheus_tsdb_head_series")), int64(e.gauge("prometheus_tsdb_head_stale_series")),
					int64(e.gauge("prometheus_tsdb_head_chunks")), int64(e.gauge("prometheus_tsdb_head_active_appenders")),
					hd.NumSeries(), hd.NumStaleSeries(),
					int64(e.gauge("prometheus_tsdb_head_series_created_total"))-int64(e.gauge("prometheus_tsdb_head_series_removed_total")),
					ns, nstale, nch)
			case "win":
				hd := e.db.Head()
				mv, ok := hd.AppendableMinValidTime()
				if ok {
					out = fmt.Sprintf("%d %d %d", hd.MinTime(), hd.MaxTime(), mv)
				} else {
					out = fmt.Sprintf("%d %d uninit", hd.MinTime(), hd.MaxTime())
				}
			}
		})
		if p {
			out = "panic:" + strings.ReplaceAll(fmt.Sprint(pv), " ", "_")
			c.Count("panic")
		}
		c.Count("op:" + f[0])
		c.Op(op, out)
	}
}

// ---------------------------------------------------------------- generator

func gen(c *h.Ctx, r *h.Rng, maxOps int) []string {
	crs := []int64{100, 1000, 7200000}
	cr := h.PickI64(r, crs)
	ooo := int64(0) // stage A: in-order only
	spc := []int{16, 4, 2}[r.Intn(3)]
	ops := []string{fmt.Sprintf("cfg %d %d %d", cr, ooo, spc)}
	nser := 1 + r.Intn(4)
	// time cursor: histories mostly advance, with jitter around chunk/block boundaries
	base := []int64{0, -cr * 3, cr * 10, -7, 1}[r.Intn(5)]
	cur := base
	step := []int64{1, cr / 10, cr / 3, cr - 1, cr, cr + 1}[r.Intn(6)]
	if step <= 0 {
		step = 1
	}
	inTx := false
	// A sample that is accepted at Append but dropped at Commit (older than an earlier sample of the
	// same transaction) still reaches the WAL; whether it lowers Head.MinTime() after a restart
	// depends on which chunks were m-mapped. Histories with restarts therefore keep per-series
	// timestamps non-decreasing inside one transaction; histories without restarts do not.
	withReopen := r.Chance(70)
	txLast := map[int]int64{}
	lastApp := map[int][2]uint64{} // newest (t, v) generated per series
	n := 8 + r.Intn(maxOps)
	pickT := func() int64 {
		switch r.Intn(10) {
		case 0:
			return cur - r.Range(0, 3)*step // older or equal
		case 1:
			return cur
		case 2:
			// block boundary neighbourhood
			b := (cur/cr + 1) * cr
			return b + r.Range(-1, 1)
		default:
			cur += r.Range(0, 2) * step
			if r.Chance(30) {
				cur += r.Range(0, 3)
			}
			return cur
		}
	}
	pickRange := func() (int64, int64) {
		switch r.Intn(6) {
		case 0:
			return math.MinInt64, math.MaxInt64
		case 1:
			a := base + r.Range(-2, 2)*cr
			return a, a + r.Range(0, 4)*cr + r.Range(-1, 1)
		case 2:
			return cur - r.Range(0, 5)*step, cur + r.Range(0, 2)
		case 3:
			a := cur - r.Range(0, 8)*step
			return a, a
		default:
			a := base + r.Range(0, (cur-base)+1)
			b := a + r.Range(0, (cur-base)/2+2)
			return a, b
		}
	}
	vals := []uint64{0x3ff0000000000000, 0x4000000000000000, 0x4008000000000000, 0x7ff8000000000001, 0x7ff0000000000002 /* stale NaN */, 0x8000000000000000, 0x7ff0000000000000, 0}
	for len(ops) < n {
		k := r.Intn(100)
		switch {
		case k < 50:
			if !inTx {
				ops = append(ops, "begin")
				inTx = true
				txLast = map[int]int64{}
			}
			cnt := 1 + r.Intn(5)
			for i := 0; i < cnt; i++ {
				v := vals[r.Intn(len(vals))]
				if r.Chance(50) {
					v = math.Float64bits(float64(r.Intn(1000)))
				}
				si, t := r.Intn(nser), pickT()
				if withReopen {
					if last, ok := txLast[si]; ok && t < last {
						t = last
					}
					txLast[si] = t
				}
				ops = append(ops, fmt.Sprintf("app %d %d %016x", si, t, v))
				lastApp[si] = [2]uint64{uint64(t), v}
			}
			if r.Chance(60) {
				if r.Chance(85) {
					ops = append(ops, "commit")
				} else {
					ops = append(ops, "rollback")
				}
				inTx = false
			}
		case k < 58:
			if inTx {
				ops = append(ops, "commit")
				inTx = false
			}
			a, b := pickRange()
			tgt := "*"
			if r.Chance(70) {
				tgt = strconv.Itoa(r.Intn(nser))
			}
			ops = append(ops, fmt.Sprintf("del %d %d %s", a, b, tgt))
			// Delete the newest sample of a series and re-submit the identical sample (finding F28).
			if r.Chance(15) && len(lastApp) > 0 {
				si := r.Intn(nser)
				if la, ok := lastApp[si]; ok {
					t := int64(la[0])
					ops = append(ops, fmt.Sprintf("del %d %d %d", t-r.Range(0, 2), t+r.Range(0, 2), si),
						"begin", fmt.Sprintf("app %d %d %016x", si, t, la[1]), "commit",
						fmt.Sprintf("q %d %d", t-5, t+5))
					c.Count("gen:identical-reappend-after-delete")
				}
			}
		case k < 66:
			if inTx {
				ops = append(ops, "commit")
				inTx = false
			}
			ops = append(ops, "compact")
		case k < 70:
			if inTx {
				ops = append(ops, "commit")
				inTx = false
			}
			// no CleanTombstones here: blocks that vanish make the next restart load m-mapped chunks and WAL
			// segments below the last truncation (finding F30's domain, where the storage model is not exact)
			ops = append(ops, "compact")
		case k < 76:
			if !withReopen {
				continue
			}
			if inTx {
				ops = append(ops, []string{"commit", "rollback"}[r.Intn(2)])
				inTx = false
			}
			ops = append(ops, "reopen")
		case k < 80:
			ops = append(ops, "win")
		default:
			a, b := pickRange()
			ops = append(ops, fmt.Sprintf("q %d %d", a, b))
		}
	}
	if inTx {
		ops = append(ops, "commit")
	}
	ops = append(ops, fmt.Sprintf("q %d %d", int64(math.MinInt64), int64(math.MaxInt64)), "win")
	var out []string
	for _, op := range ops {
		out = append(out, op)
		if !strings.HasPrefix(op, "cfg") && !strings.HasPrefix(op, "q ") && r.Chance(35) {
			out = append(out, "stat")
		}
	}
	out = append(out, "stat")
	return out
}

func main() {
	c := h.Init()
	defer c.Finish()
	if c.Replay != "" {
		for _, cs := range c.ReplayCases() {
			c.Case(strings.TrimPrefix(cs[0], "case "))
			runCase(c, cs[1:])
		}
		return
	}
	maxOps := 40
	if c.Tier == "thorough" {
		maxOps = 60
	}
	for i := 0; i < c.N; i++ {
		r := c.Rng.Fork()
		ops := gen(c, r, maxOps)
		c.Case(fmt.Sprintf("h%d", i))
		c.NonTrivial(strings.Join(ops, ";"))
		runCase(c, ops)
	}
}
