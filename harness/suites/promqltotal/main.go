// Suite promqltotal (C33): query evaluation by the real promql.Engine over a real TSDB never fails internally,
// and results do not depend on other queries evaluated concurrently in the same engine.
//
// ops:  cfg <lookback_ms>                                      engine lookback delta of this case
//       ser <name> <labels|-> <t:P,t:P,...|->                  one series; point P = f<16 hex bits> (float; 7ff0000000000002 = stale marker)
//                                                              | h<k> | g<k> | c<k> | F<k>  (native histogram k: exponential counter / gauge /
//                                                              custom buckets / float histogram, tsdbutil.GenerateTest*Histogram(k))
//       del <name> <labels|-> <mint> <maxt>                    db.Delete on the series with exactly these labels
//       iq <eng> <ts> <hexquery> [obs=..]                      instant query;  eng = main | dnr (delayed name removal, per-step stats)
//       rq <eng> <start> <end> <step> <hexquery> [obs=..]          | small (MaxSamples 40) | cancel (context cancelled before Exec)
// out:  cfg/ser/del -> ok | err
//       iq/rq -> <class>;conc=<cmp>   (the same string is recorded as obs= in the op line)
//          class = ok:<scalar|vector|matrix|string> | user-error:<class> | INTERNAL:<sanitised text>
//          cmp   = same | na (error / cancelled query) | diff/<sameLabels>/<sameCount>/<sameValueMultiset>/<maxUlp|x>
//                  all queries of the case are evaluated serially first and then 16-way concurrently (each `reps` = 8 times, shuffled) in
//                  the SAME engine and storage; cmp compares the canonical results (label sets, value bits, NaN-aware, histogram hash)
package main

import (
	"context"
	"errors"
	"fmt"
	"hash/fnv"
	"math"
	"os"
	"sort"
	"strconv"
	"strings"
	"sync"
	"time"

	"github.com/prometheus/prometheus/model/histogram"
	"github.com/prometheus/prometheus/model/labels"
	"github.com/prometheus/prometheus/promql"
	"github.com/prometheus/prometheus/promql/parser"
	"github.com/prometheus/prometheus/tsdb"
	"github.com/prometheus/prometheus/tsdb/tsdbutil"
	"github.com/prometheus/prometheus/util/teststorage"

	"verif/harness/h"
)

// ---------------------------------------------------------------- engines

type env struct {
	engs    map[string]*promql.Engine
	workers int
	reps    int
}

func (e *env) engine(kind string, lookback int64) *promql.Engine {
	key := kind + "/" + strconv.FormatInt(lookback, 10)
	if g, ok := e.engs[key]; ok {
		return g
	}
	opts := promql.EngineOpts{
		MaxSamples:               2000000,
		Timeout:                  60 * time.Second,
		NoStepSubqueryIntervalFn: func(int64) int64 { return 15000 },
		EnableAtModifier:         true,
		EnableNegativeOffset:     true,
		LookbackDelta:            time.Duration(lookback) * time.Millisecond,
		Parser: parser.NewParser(parser.Options{EnableExperimentalFunctions: true, ExperimentalDurationExpr: true,
			EnableExtendedRangeSelectors: true, EnableBinopFillModifiers: true}),
	}
	switch kind {
	case "dnr":
		opts.EnableDelayedNameRemoval = true
		opts.EnablePerStepStats = true
	case "small":
		opts.MaxSamples = 40
	}
	g := promql.NewEngine(opts)
	e.engs[key] = g
	return g
}

// ---------------------------------------------------------------- results

type elem struct {
	lbl string
	val string // 16 hex digits (NaN canonical) or H<hash>
}

type result struct {
	class string
	steps [][]elem // nil for errors
}

func sanitize(s string) string {
	var b strings.Builder
	for i := 0; i < len(s) && b.Len() < 160; i++ {
		ch := s[i]
		if ch >= 'a' && ch <= 'z' || ch >= 'A' && ch <= 'Z' || ch >= '0' && ch <= '9' || strings.IndexByte("_.+-:,()[]{}=<>/*%^!~@", ch) >= 0 {
			b.WriteByte(ch)
		} else if ch == ' ' {
			b.WriteByte('_')
		} else {
			fmt.Fprintf(&b, "%%%02X", ch)
		}
	}
	return b.String()
}

func lblStr(l labels.Labels) string {
	var parts []string
	l.Range(func(x labels.Label) {
		parts = append(parts, sanitize(x.Name)+":"+sanitize(x.Value))
	})
	sort.Strings(parts)
	return strings.Join(parts, ",")
}

func histHash(fh *histogram.FloatHistogram) string {
	hh := fnv.New64a()
	w := func(f float64) {
		if math.IsNaN(f) {
			fmt.Fprint(hh, "nan,")
			return
		}
		fmt.Fprintf(hh, "%016x,", math.Float64bits(f))
	}
	fmt.Fprintf(hh, "%d;%d;", fh.Schema, fh.CounterResetHint)
	w(fh.ZeroThreshold)
	w(fh.ZeroCount)
	w(fh.Count)
	w(fh.Sum)
	for _, s := range fh.PositiveSpans {
		fmt.Fprintf(hh, "p%d:%d,", s.Offset, s.Length)
	}
	for _, s := range fh.NegativeSpans {
		fmt.Fprintf(hh, "n%d:%d,", s.Offset, s.Length)
	}
	for _, b := range fh.PositiveBuckets {
		w(b)
	}
	fmt.Fprint(hh, "|")
	for _, b := range fh.NegativeBuckets {
		w(b)
	}
	fmt.Fprint(hh, "|")
	for _, b := range fh.CustomValues {
		w(b)
	}
	return fmt.Sprintf("H%016x", hh.Sum64())
}

func valStr(f float64, fh *histogram.FloatHistogram) string {
	if fh != nil {
		return histHash(fh)
	}
	if math.IsNaN(f) && math.Float64bits(f) != 0x7ff0000000000002 {
		return "7ff8000000000001"
	}
	return fmt.Sprintf("%016x", math.Float64bits(f))
}

// Markers of errors that are NOT user-facing: converted runtime panics and the engine's "impossible" branches.
var internalMarkers = []string{
	"unexpected error", "runtime error", "unhandled", "invalid memory", "unexpected nil implementation",
	"unexpected result in StepInvariantExpr", "unexpected number of samples", "cannot do range evaluation of matrix selector",
	"not allowed for Scalar operations", "not allowed for operations between Vectors", "expected aggregation operator",
	"set operations must only use", "many-to-many only allowed for set operators", "unknown value type",
	"unexpected duration expression", "found unexpected node", "invalid expression type \"", "unexpected expression type",
	"nil pointer", "index out of range", "interface conversion", "this should be an info metric",
}

func errClass(err error) string {
	s := err.Error()
	// the range-query type restriction is a documented user error although its text resembles an internal marker
	if strings.Contains(s, "for range query, must be Scalar or instant Vector") {
		return "user-error:expr-type"
	}
	var pe parser.ParseErrors
	if errors.As(err, &pe) && !strings.Contains(s, "runtime error") && !strings.Contains(s, "unexpected error") {
		return "user-error:parse"
	}
	for _, m := range internalMarkers {
		if strings.Contains(s, m) {
			return "INTERNAL:" + sanitize(s)
		}
	}
	var (
		eto promql.ErrQueryTimeout
		eca promql.ErrQueryCanceled
		etm promql.ErrTooManySamples
		est promql.ErrStorage
	)
	switch {
	case errors.As(err, &eto):
		return "user-error:timeout"
	case errors.As(err, &eca):
		return "user-error:canceled"
	case errors.As(err, &etm):
		return "user-error:too-many-samples"
	case errors.As(err, &est):
		return "INTERNAL:storage:" + sanitize(s)
	}
	for _, p := range [][2]string{
		{"many-to-many matching not allowed", "many-to-many"},
		{"multiple matches for labels", "multiple-matches"},
		{"found duplicate series for the match group", "dup-match-group"},
		{"vector cannot contain metrics with the same labelset", "duplicate-labelset"},
		{"Parameter value is NaN", "param"}, {"Ratio value is NaN", "param"}, {"overflows int64", "param"}, {"underflows int64", "param"},
		{"invalid label name", "invalid-label"},
		{"invalid regular expression in label_replace", "label-fn-arg"}, {"invalid destination label name", "label-fn-arg"},
		{"invalid source label name", "label-fn-arg"},
		{"invalid smoothing factor", "smoothing-factor"}, {"invalid trend factor", "smoothing-factor"},
		{"duration is NaN or infinite", "duration"}, {"duration must be greater than 0", "duration"}, {"duration is out of range", "duration"},
		{"division by zero", "duration"}, {"modulo by zero", "duration"},
		{"modifier is disabled", "disabled"}, {"negative offset is disabled", "disabled"},
		{"anchored modifier", "ext-range"}, {"smoothed modifier", "ext-range"},
		{"info sample should be float", "info"}, {"found duplicate series for info metric", "info"}, {"conflicting label", "info"},
	} {
		if strings.Contains(s, p[0]) {
			return "user-error:" + p[1]
		}
	}
	return "user-error:other:" + sanitize(s[:min(len(s), 60)])
}

type query struct {
	eng          string
	rng          bool
	start, end   int64
	step         int64
	qs           string
	opIdx        int
	fields       []string
	serial       result
	conc         []result
	harnessPanic string
}

func (e *env) run(eng *promql.Engine, st *teststorage.TestStorage, q *query) (res result) {
	defer func() {
		if r := recover(); r != nil {
			res = result{class: "INTERNAL:harness-recovered-panic:" + sanitize(fmt.Sprint(r))}
		}
	}()
	ctx := context.Background()
	var qry promql.Query
	var err error
	if q.rng {
		qry, err = eng.NewRangeQuery(ctx, st, nil, q.qs, time.UnixMilli(q.start), time.UnixMilli(q.end), time.Duration(q.step)*time.Millisecond)
	} else {
		qry, err = eng.NewInstantQuery(ctx, st, nil, q.qs, time.UnixMilli(q.start))
	}
	if err != nil {
		return result{class: errClass(err)}
	}
	defer qry.Close()
	if q.eng == "cancel" {
		c2, cancel := context.WithCancel(ctx)
		cancel()
		ctx = c2
	}
	r := qry.Exec(ctx)
	if r.Err != nil {
		return result{class: errClass(r.Err)}
	}
	switch v := r.Value.(type) {
	case promql.Matrix:
		byT := map[int64][]elem{}
		var ts []int64
		add := func(l labels.Labels, t int64, f float64, fh *histogram.FloatHistogram) {
			if _, ok := byT[t]; !ok {
				ts = append(ts, t)
			}
			byT[t] = append(byT[t], elem{lblStr(l), valStr(f, fh)})
		}
		for _, s := range v {
			for _, p := range s.Floats {
				add(s.Metric, p.T, p.F, nil)
			}
			for _, p := range s.Histograms {
				add(s.Metric, p.T, 0, p.H)
			}
		}
		sort.Slice(ts, func(i, j int) bool { return ts[i] < ts[j] })
		res.class = "ok:matrix"
		res.steps = [][]elem{}
		for _, t := range ts {
			el := byT[t]
			for i := range el {
				el[i].lbl = strconv.FormatInt(t, 10) + "@" + el[i].lbl
			}
			res.steps = append(res.steps, el)
		}
	case promql.Vector:
		var el []elem
		for _, s := range v {
			el = append(el, elem{lblStr(s.Metric), valStr(s.F, s.H)})
		}
		res.class, res.steps = "ok:vector", [][]elem{el}
	case promql.Scalar:
		res.class, res.steps = "ok:scalar", [][]elem{{{"", valStr(v.V, nil)}}}
	case promql.String:
		res.class, res.steps = "ok:string", [][]elem{{{"", "S" + h.HexS(v.V)}}}
	default:
		res.class = "INTERNAL:result-type:" + sanitize(fmt.Sprintf("%T", r.Value))
	}
	for _, el := range res.steps {
		sort.Slice(el, func(i, j int) bool {
			if el[i].lbl != el[j].lbl {
				return el[i].lbl < el[j].lbl
			}
			return el[i].val < el[j].val
		})
	}
	return res
}

func ordBits(s string) (int64, bool) {
	if len(s) != 16 {
		return 0, false
	}
	u, err := strconv.ParseUint(s, 16, 64)
	if err != nil || math.IsNaN(math.Float64frombits(u)) {
		return 0, false
	}
	if u >= 1<<63 {
		return -int64(u - 1<<63), true
	}
	return int64(u), true
}

// compare: "same" or diff/<sameLabels>/<sameCount>/<sameValueMultiset>/<maxUlp|x>
func compare(a, b result) string {
	if a.class != b.class {
		return "diff/class:" + b.class
	}
	if a.steps == nil {
		return "same"
	}
	flat := func(r result) []elem {
		var out []elem
		for _, s := range r.steps {
			out = append(out, s...)
		}
		return out
	}
	x, y := flat(a), flat(b)
	same := len(x) == len(y) && len(a.steps) == len(b.steps)
	if same {
		for i := range x {
			if x[i] != y[i] {
				same = false
				break
			}
		}
	}
	if same {
		return "same"
	}
	b2i := func(v bool) string {
		if v {
			return "1"
		}
		return "0"
	}
	sameCount := len(x) == len(y) && len(a.steps) == len(b.steps)
	if sameCount {
		for i := range a.steps {
			if len(a.steps[i]) != len(b.steps[i]) {
				sameCount = false
			}
		}
	}
	sameLabels := sameCount
	if sameLabels {
		for i := range x {
			if x[i].lbl != y[i].lbl {
				sameLabels = false
			}
		}
	}
	// value multisets per step
	sameMulti := sameCount
	if sameMulti {
		for i := range a.steps {
			va, vb := []string{}, []string{}
			// -0 and +0 tie under float comparison: a k-selection may return either
			nz := func(v string) string {
				if v == "8000000000000000" {
					return "0000000000000000"
				}
				return v
			}
			for _, e := range a.steps[i] {
				va = append(va, nz(e.val))
			}
			for _, e := range b.steps[i] {
				vb = append(vb, nz(e.val))
			}
			sort.Strings(va)
			sort.Strings(vb)
			if strings.Join(va, ",") != strings.Join(vb, ",") {
				sameMulti = false
			}
		}
	}
	ulp := "x"
	if sameLabels {
		var mx int64
		ok := true
		for i := range x {
			if x[i].val == y[i].val {
				continue
			}
			p, ok1 := ordBits(x[i].val)
			q, ok2 := ordBits(y[i].val)
			if !ok1 || !ok2 {
				ok = false
				break
			}
			d := p - q
			if d < 0 {
				d = -d
			}
			if d < 0 || d > 1<<40 {
				ok = false
				break
			}
			mx = max(mx, d)
		}
		if ok {
			ulp = strconv.FormatInt(mx, 10)
		}
	}
	return "diff/" + b2i(sameLabels) + "/" + b2i(sameCount) + "/" + b2i(sameMulti) + "/" + ulp
}

// ---------------------------------------------------------------- data

func parseLabels(name, ls string) (labels.Labels, bool) {
	b := labels.NewBuilder(labels.EmptyLabels())
	b.Set("__name__", name)
	if ls != "-" {
		for _, kv := range strings.Split(ls, ",") {
			i := strings.IndexByte(kv, ':')
			if i <= 0 {
				return labels.EmptyLabels(), false
			}
			b.Set(kv[:i], kv[i+1:])
		}
	}
	return b.Labels(), true
}

func appendSeries(st *teststorage.TestStorage, ls labels.Labels, pts string) string {
	app := st.Appender(context.Background())
	fail := func() string { _ = app.Rollback(); return "err" }
	if pts != "-" {
		for _, p := range strings.Split(pts, ",") {
			i := strings.IndexByte(p, ':')
			if i <= 0 || i+2 > len(p) {
				return fail()
			}
			t, e1 := strconv.ParseInt(p[:i], 10, 64)
			if e1 != nil {
				return fail()
			}
			kind, arg := p[i+1], p[i+2:]
			var err error
			switch kind {
			case 'f':
				bits, e2 := strconv.ParseUint(arg, 16, 64)
				if e2 != nil {
					return fail()
				}
				_, err = app.Append(0, ls, t, math.Float64frombits(bits))
			case 'h', 'g', 'c', 'F':
				k, e2 := strconv.ParseInt(arg, 10, 64)
				if e2 != nil || k < 0 || k > 1000 {
					return fail()
				}
				switch kind {
				case 'h':
					_, err = app.AppendHistogram(0, ls, t, tsdbutil.GenerateTestHistogram(k), nil)
				case 'g':
					_, err = app.AppendHistogram(0, ls, t, tsdbutil.GenerateTestGaugeHistogram(k), nil)
				case 'c':
					_, err = app.AppendHistogram(0, ls, t, tsdbutil.GenerateTestCustomBucketsHistogram(k), nil)
				case 'F':
					_, err = app.AppendHistogram(0, ls, t, nil, tsdbutil.GenerateTestFloatHistogram(k))
				}
			default:
				return fail()
			}
			if err != nil {
				return fail()
			}
		}
	}
	if err := app.Commit(); err != nil {
		return "err"
	}
	return "ok"
}

func stripObs(f []string) []string {
	var out []string
	for _, x := range f {
		if !strings.HasPrefix(x, "obs=") {
			out = append(out, x)
		}
	}
	return out
}

// ---------------------------------------------------------------- one case

func (e *env) runCase(c *h.Ctx, ops []string) {
	st, err := teststorage.NewWithError(func(opt *tsdb.Options) {
		opt.WALSegmentSize = -1
		opt.EnableExemplarStorage = false
	})
	if err != nil {
		fmt.Fprintln(os.Stderr, "harness error:", err)
		os.Exit(3)
	}
	defer st.Close()
	st.DisableCompactions()
	lookback := int64(300000)
	outs := make([]string, len(ops))
	lines := make([]string, len(ops))
	var qs []*query
	for i, op := range ops {
		f := stripObs(strings.Fields(op))
		lines[i] = op
		outs[i] = "bad-op"
		if len(f) == 0 {
			continue
		}
		switch {
		case f[0] == "cfg" && len(f) == 2:
			v, err := strconv.ParseInt(f[1], 10, 64)
			if err == nil && v > 0 && len(qs) == 0 {
				lookback = v
				outs[i] = "ok"
			}
		case f[0] == "ser" && len(f) == 4:
			ls, ok := parseLabels(f[1], f[2])
			if ok {
				outs[i] = appendSeries(st, ls, f[3])
			}
		case f[0] == "del" && len(f) == 5:
			ls, ok := parseLabels(f[1], f[2])
			mint, e1 := strconv.ParseInt(f[3], 10, 64)
			maxt, e2 := strconv.ParseInt(f[4], 10, 64)
			if ok && e1 == nil && e2 == nil {
				var ms []*labels.Matcher
				ls.Range(func(l labels.Label) { ms = append(ms, labels.MustNewMatcher(labels.MatchEqual, l.Name, l.Value)) })
				if err := st.DB.Delete(context.Background(), mint, maxt, ms...); err != nil {
					outs[i] = "err"
				} else {
					outs[i] = "ok"
				}
			}
		case f[0] == "iq" && len(f) == 4:
			ts, e1 := strconv.ParseInt(f[2], 10, 64)
			qb, ok := tryUnhex(f[3])
			if e1 == nil && ok && engOK(f[1]) {
				qs = append(qs, &query{eng: f[1], start: ts, end: ts, qs: qb, opIdx: i, fields: f})
				outs[i] = ""
			}
		case f[0] == "rq" && len(f) == 6:
			s0, e1 := strconv.ParseInt(f[2], 10, 64)
			e0, e2 := strconv.ParseInt(f[3], 10, 64)
			p0, e3 := strconv.ParseInt(f[4], 10, 64)
			qb, ok := tryUnhex(f[5])
			if e1 == nil && e2 == nil && e3 == nil && ok && engOK(f[1]) && p0 > 0 && e0 >= s0 && (e0-s0)/p0 <= 200 {
				qs = append(qs, &query{eng: f[1], rng: true, start: s0, end: e0, step: p0, qs: qb, opIdx: i, fields: f})
				outs[i] = ""
			}
		}
	}
	// serial pass
	for _, q := range qs {
		q.serial = e.run(e.engine(q.eng, lookback), st, q)
	}
	// concurrent pass: every query twice, shuffled deterministically, `workers` goroutines, one engine per kind (shared pools)
	var jobs []*query
	for k := 0; k < e.reps; k++ {
		jobs = append(jobs, qs...)
	}
	sh := h.NewRng(uint64(len(qs))*7919 + 17)
	for i := len(jobs) - 1; i > 0; i-- {
		j := sh.Intn(i + 1)
		jobs[i], jobs[j] = jobs[j], jobs[i]
	}
	for _, k := range []string{"main", "dnr", "small", "cancel"} {
		e.engine(k, lookback) // create outside the goroutines
	}
	ch := make(chan *query)
	var mu sync.Mutex
	var wg sync.WaitGroup
	for w := 0; w < e.workers; w++ {
		wg.Add(1)
		go func() {
			defer wg.Done()
			for q := range ch {
				r := e.run(e.engs[q.eng+"/"+strconv.FormatInt(lookback, 10)], st, q)
				mu.Lock()
				q.conc = append(q.conc, r)
				mu.Unlock()
			}
		}()
	}
	for _, q := range jobs {
		ch <- q
	}
	close(ch)
	wg.Wait()
	for _, q := range qs {
		cmp := "same"
		if q.serial.steps == nil {
			cmp = "na"
		}
		for _, r := range q.conc {
			if d := compare(q.serial, r); d != "same" {
				cmp = d
				break
			}
		}
		out := q.serial.class + ";conc=" + cmp
		outs[q.opIdx] = out
		lines[q.opIdx] = strings.Join(q.fields, " ") + " obs=" + out
		cl := q.serial.class
		if strings.HasPrefix(cl, "INTERNAL:") {
			cl = "INTERNAL"
		}
		if strings.HasPrefix(cl, "user-error:other:") {
			c.Count("class:" + cl[:min(len(cl), 50)])
		} else {
			c.Count("class:" + cl)
		}
		if q.rng {
			c.Count("kind:range")
		} else {
			c.Count("kind:instant")
		}
		c.Count("eng:" + q.eng)
		if cmp != "same" && cmp != "na" {
			c.Count("conc:diff")
		}
		if q.serial.steps != nil {
			n := 0
			for _, s := range q.serial.steps {
				n += len(s)
			}
			if n > 0 {
				c.Count("result:nonempty")
			} else {
				c.Count("result:empty")
			}
		}
	}
	for i := range ops {
		c.Op(lines[i], outs[i])
	}
}

func engOK(s string) bool { return s == "main" || s == "dnr" || s == "small" || s == "cancel" }

func tryUnhex(s string) (out string, ok bool) {
	defer func() {
		if r := recover(); r != nil {
			out, ok = "", false
		}
	}()
	return string(h.UnHex(s)), true
}

func main() {
	if st, err := os.Stat("/dev/shm"); err == nil && st.IsDir() {
		os.Setenv("TMPDIR", "/dev/shm")
	}
	c := h.Init()
	defer c.Finish()
	e := &env{engs: map[string]*promql.Engine{}, workers: 16, reps: 8}
	if v, err := strconv.Atoi(c.Extra["reps"]); err == nil && v > 0 {
		e.reps = v
	}
	if v, err := strconv.Atoi(c.Extra["workers"]); err == nil && v > 0 {
		e.workers = v
	}
	nq := 120
	if v, err := strconv.Atoi(c.Extra["queries"]); err == nil && v > 0 {
		nq = v
	}
	if c.Replay != "" {
		for _, cs := range c.ReplayCases() {
			c.Case(strings.TrimPrefix(cs[0], "case "))
			e.runCase(c, cs[1:])
		}
		return
	}
	for i := 0; i < c.N; i++ {
		c.Case(fmt.Sprintf("t%d", i))
		ops := genCase(c, c.Rng, nq)
		c.NonTrivial(strings.Join(ops, ";"))
		e.runCase(c, ops)
	}
}
