package main

import (
	"fmt"
	"math"
	"sort"
	"strconv"
	"strings"

	"github.com/prometheus/prometheus/promql/parser"

	"verif/harness/h"
)

const staleBits = 0x7ff0000000000002

type gctx struct {
	r       *h.Rng
	c       *h.Ctx
	t0, t1  int64
	ats     []int64
	ill     bool // inject type errors
	nIll    int  // number of injected type errors in the current query
	fnNames []string
	nextFn  int
	subq    int // subquery nesting depth of the expression being generated
}

func fbits(f float64) uint64 { return math.Float64bits(f) }

// ---------------------------------------------------------------- data

func (g *gctx) times(lookback int64) []int64 {
	r := g.r
	iv := h.PickI64(r, []int64{5000, 10000, 15000, 15000, 30000})
	t := g.t0 + r.Range(0, iv)
	if r.Chance(25) {
		t = g.t0 + r.Range(0, (g.t1-g.t0)/2)
	}
	end := g.t1
	if r.Chance(20) {
		end = g.t0 + r.Range((g.t1-g.t0)/2, g.t1-g.t0)
	}
	var ts []int64
	for t <= end && len(ts) < 70 {
		ts = append(ts, t)
		switch x := r.Intn(100); {
		case x < 65:
			t += iv
		case x < 78:
			t += iv + r.Range(-iv/10, iv/10)
		case x < 86:
			t += lookback + r.Range(-2, 2)
		case x < 91:
			t += lookback + r.Range(1, 3*iv)
		case x < 95:
			t += r.Range(1, 3)
		default:
			t += r.Range(1, 3*iv)
		}
	}
	return ts
}

func genValue(r *h.Rng) float64 {
	switch x := r.Intn(100); {
	case x < 45:
		return float64(r.Range(0, 3))
	case x < 60:
		return float64(r.Range(-4, 12))
	case x < 72:
		return float64(r.Range(-64, 640)) / float64(int64(1)<<uint(r.Range(0, 4)))
	case x < 78:
		return math.NaN()
	case x < 82:
		return math.Inf(1)
	case x < 85:
		return math.Inf(-1)
	case x < 88:
		return math.Copysign(0, -1)
	case x < 91:
		return h.Pick(r, []float64{1e308, -1e308, 5e-324, 1e18, 9.3e18, 1 << 53})
	default:
		return 0.1 * float64(r.Range(1, 50))
	}
}

// kind: gauge | counter | hist | mixed | info
func (g *gctx) series(name, lbls, kind string, lookback int64) string {
	r := g.r
	ts := g.times(lookback)
	var parts []string
	v := float64(r.Range(0, 5))
	k := r.Range(0, 3)
	hk := h.Pick(r, []string{"h", "h", "g", "c", "F"})
	for i, t := range ts {
		if r.Chance(25) {
			g.ats = append(g.ats, t)
		}
		if i > 0 && r.Chance(6) {
			parts = append(parts, fmt.Sprintf("%d:f%016x", t, uint64(staleBits)))
			continue
		}
		asHist := kind == "hist" || (kind == "mixed" && r.Chance(50))
		if asHist {
			if r.Chance(10) {
				k = r.Range(0, 2)
			} else if !r.Chance(20) {
				k += r.Range(0, 2)
			}
			pk := hk
			if kind == "mixed" && r.Chance(30) {
				pk = h.Pick(r, []string{"h", "g", "c", "F"})
			}
			parts = append(parts, fmt.Sprintf("%d:%s%d", t, pk, k))
			continue
		}
		switch kind {
		case "counter":
			if r.Chance(8) {
				v = float64(r.Range(0, 2))
			} else if !r.Chance(15) {
				v += float64(r.Range(0, 16)) / float64(int64(1)<<uint(r.Range(0, 2)))
			}
		case "info":
			v = 1
		default:
			if !r.Chance(30) {
				v = genValue(r)
			}
		}
		parts = append(parts, fmt.Sprintf("%d:f%016x", t, fbits(v)))
	}
	p := "-"
	if len(parts) > 0 {
		p = strings.Join(parts, ",")
	}
	return fmt.Sprintf("ser %s %s %s", name, lbls, p)
}

// ---------------------------------------------------------------- query text

var durPool = []string{"1ms", "1s", "5s", "10s", "15s", "30s", "45s", "1m", "61s", "90s", "2m", "5m", "10m", "1h"}
var hugeDur = []string{"1d", "1w", "1y", "100y", "292y", "9223372036s", "9223372036854ms"}
var badDur = []string{"0s", "0", "-5m", "300y", "9223372037s", "1e30", "NaN", "Inf", "1x", ""}
var offPool = []string{"1s", "5s", "15s", "30s", "1m", "1ms", "999ms", "2m", "-5s", "-15s", "-30s", "-1ms", "0s", "100y", "-100y", "1y"}
var durExprPool = []string{"(1m+30s)", "(5m/2)", "(2*30s)", "step()", "range()", "max_of(step(),30s)", "min_of(1m,range())", "(1m-1m)", "(1m/0)", "(1m%0)",
	"(2^70)", "(-1m)", "(10s*1e30)", "(1m-2m)", "+30s", "(step()*2)", "(range()+1s)"}

var scalarPool = []string{"0", "1", "2", "3", "-1", "0.5", "0.25", "0.9", "0.99", "1.5", "100", "1e6", "NaN", "Inf", "-Inf", "-0", "1e18", "9.3e18", "-9.3e18",
	"1e19", "1e308", "5e-324", "9007199254740993", "9223372036854775807", "-9223372036854775808", "0x7fffffffffffffff", "1e-9", "4294967296", "2147483648",
	"1m", "-2"}

var labelNames = []string{"a", "b", "le", "__name__", "c", "instance", "job", "data", "nope"}
var regexPool = []string{"(.*)", ".*", ".+", "x|y", "(x)|(y)", "", "(?P<n>.*)", "(.)(.)?", "^x$", "[xy]", "x*", "(?i)X", "\\d+", "(", "[", "*", "(?P<n>", "a{2000}", "\\", "(x", ".*.*.*", "()", "(?s).*", "$", "(.*)(.*)(.*)(.*)(.*)(.*)(.*)(.*)(.*)(.*)(.*)"}
var replPool = []string{"$1", "$0", "${1}", "$n", "${n}", "$99", "$1$1$1", "", "fixed", "$", "$$", "${", "${1", "$-1", "x$1y", "\xff", "$1-$2"}
var dstPool = []string{"c", "a", "b", "__name__", "le", "new", "", "0bad", "a-b", "\xff", "__x__", "ä", "job"}
var strPool = []string{"a", "b", "v", "", "le", "__name__", "0bad", "x y", "\xff\xfe", "ä", "\"", "\\", "\n", "q", "quantile"}

func (g *gctx) q(s string) string { return strconv.Quote(s) }

func (g *gctx) strLit() string {
	r := g.r
	s := h.Pick(r, strPool)
	switch r.Intn(6) {
	case 0:
		if !strings.ContainsAny(s, "'\\\n") {
			return "'" + s + "'"
		}
	case 1:
		if !strings.ContainsAny(s, "`") {
			return "`" + s + "`"
		}
	}
	return strconv.Quote(s)
}

func (g *gctx) dur() string {
	r := g.r
	switch x := r.Intn(100); {
	case x < 80:
		return h.Pick(r, durPool)
	case x < 88:
		return h.Pick(r, hugeDur)
	case x < 94:
		return h.Pick(r, durExprPool)
	default:
		if g.ill || r.Chance(20) {
			g.nIll++
			return h.Pick(r, badDur)
		}
		return h.Pick(r, durPool)
	}
}

func (g *gctx) atMod() string {
	r := g.r
	switch x := r.Intn(100); {
	case x < 72:
		return ""
	case x < 84:
		if len(g.ats) > 0 && r.Chance(60) {
			t := h.PickI64(r, g.ats) + r.Range(-1, 1)
			return fmt.Sprintf(" @ %d.%03d", t/1000, t%1000)
		}
		t := r.Range(g.t0-30000, g.t1+30000)
		return fmt.Sprintf(" @ %d.%03d", t/1000, t%1000)
	case x < 89:
		return " @ start()"
	case x < 94:
		return " @ end()"
	case x < 97:
		return " @ " + h.Pick(r, []string{"0", "-1", "1e10", "-1e10", "9223372036854775", "-9223372036854775", "0.0005", "1e-300"})
	default:
		if g.ill {
			g.nIll++
			return " @ " + h.Pick(r, []string{"NaN", "Inf", "1e19", "9223372036854776", "start", "-Inf", "(1)", "time()"})
		}
		return ""
	}
}

func (g *gctx) offset() string {
	r := g.r
	if r.Chance(72) {
		return ""
	}
	if r.Chance(10) {
		return " offset " + h.Pick(r, durExprPool)
	}
	return " offset " + h.Pick(r, offPool)
}

func (g *gctx) matchers() string {
	r := g.r
	if r.Chance(60) {
		return ""
	}
	var ms []string
	n := int(r.Range(1, 2))
	for i := 0; i < n; i++ {
		l := h.Pick(r, []string{"a", "a", "b", "le", "nope", "data"})
		op := h.Pick(r, []string{"=", "=", "!=", "=~", "!~"})
		var v string
		if strings.Contains(op, "~") {
			v = h.Pick(r, []string{"x|y", "x", ".*", ".+", "[xy]", "", "z?", "x|", "p.*"})
			if g.ill && r.Chance(10) {
				g.nIll++
				v = h.Pick(r, []string{"(", "[", "*"})
			}
		} else {
			v = h.Pick(r, []string{"x", "y", "z", "p", "q", "", "1", "+Inf", "nope"})
		}
		ms = append(ms, l+op+strconv.Quote(v))
	}
	return "{" + strings.Join(ms, ",") + "}"
}

var metricPool = []string{"m1", "m1", "m2", "m2", "c_total", "c_total", "hb_bucket", "nh", "nh", "mix", "mix", "target_info", "nope", "gone"}

func (g *gctx) selectorCore() string {
	r := g.r
	switch x := r.Intn(100); {
	case x < 82:
		return h.Pick(r, metricPool) + g.matchers()
	case x < 88:
		return `{__name__=~"m.*"` + h.Pick(r, []string{"", `,a="x"`, `,b!="p"`}) + "}"
	case x < 92:
		return `{a="` + h.Pick(r, []string{"x", "y", "nope"}) + `"}`
	case x < 95:
		return `{__name__="m1",a=~"x|y"}`
	case x < 97:
		return `{"m1", a="x"}`
	default:
		if g.ill {
			g.nIll++
			return h.Pick(r, []string{`{a=~".*"}`, `{}`, `{a=""}`, `m1{__name__="m2"}`, `{a!="x",}`, `m1{a="x"`, `{a!~".+"}`})
		}
		return "m1"
	}
}

func (g *gctx) selector() string {
	r := g.r
	s := g.selectorCore()
	off, at := g.offset(), g.atMod()
	ext := ""
	if r.Chance(3) {
		ext = " " + h.Pick(r, []string{"anchored", "smoothed"})
	}
	if r.Bool() {
		return s + ext + off + at
	}
	return s + ext + at + off
}

func (g *gctx) matrixSel() string {
	r := g.r
	s := g.selectorCore()
	off, at := g.offset(), g.atMod()
	ext := ""
	if r.Chance(8) {
		ext = " " + h.Pick(r, []string{"anchored", "smoothed"})
	}
	if r.Bool() {
		return s + "[" + g.dur() + "]" + ext + off + at
	}
	return s + "[" + g.dur() + "]" + ext + at + off
}

func (g *gctx) subquery(d int) string {
	r := g.r
	g.subq++
	inner := g.vec(d - 1)
	g.subq--
	// bounded number of inner steps: range / step <= ~200 at the outermost level, <= 12 when nested
	type rs struct{ rg, st string }
	if g.subq > 0 {
		p := h.Pick(r, []rs{{"1m", "10s"}, {"1m", ""}, {"30s", "5s"}, {"2m", "1m"}, {"1s", "1s"}, {"1m", "2m"}, {"100y", "10y"}})
		return "(" + inner + ")[" + p.rg + ":" + p.st + "]" + g.offset() + g.atMod()
	}
	p := h.Pick(r, []rs{{"5m", "1m"}, {"5m", ""}, {"1m", "5s"}, {"10m", "30s"}, {"2m", "7s"}, {"30s", "1s"}, {"1m", "1m"}, {"1m", "2m"}, {"100ms", "1ms"},
		{"1h", "1m"}, {"1y", "30d"}, {"100y", "1y"}, {"5m", "15s"}, {"1s", "1s"}, {"45s", "15s"}, {"5m", "(1m+30s)"}, {"(2*1m)", "30s"}, {"1m", "step()"}, {"range()", "30s"},
		{"1m", "-5s"}, {"1m", "0s"}, {"1m", "(1s-1s)"}})
	off, at := g.offset(), g.atMod()
	if r.Bool() {
		return "(" + inner + ")[" + p.rg + ":" + p.st + "]" + off + at
	}
	return "(" + inner + ")[" + p.rg + ":" + p.st + "]" + at + off
}

func (g *gctx) mat(d int) string {
	if d > 0 && g.subq < 2 && g.r.Chance(35) {
		return g.subquery(d)
	}
	return g.matrixSel()
}

// other picks an expression of a type different from want (type-error injection).
func (g *gctx) other(want parser.ValueType, d int) string {
	g.nIll++
	r := g.r
	for {
		switch r.Intn(4) {
		case 0:
			if want != parser.ValueTypeScalar {
				return g.scal(d)
			}
		case 1:
			if want != parser.ValueTypeVector {
				return g.vec(d)
			}
		case 2:
			if want != parser.ValueTypeMatrix {
				return g.mat(d)
			}
		case 3:
			if want != parser.ValueTypeString {
				return g.strLit()
			}
		}
	}
}

func (g *gctx) typed(t parser.ValueType, d int) string {
	if g.ill && g.r.Chance(6) {
		return g.other(t, d)
	}
	var s string
	switch t {
	case parser.ValueTypeScalar:
		s = g.scal(d)
	case parser.ValueTypeVector:
		s = g.vec(d)
	case parser.ValueTypeMatrix:
		s = g.mat(d)
	case parser.ValueTypeString:
		s = g.strLit()
	default:
		s = "1"
	}
	if g.r.Chance(6) {
		return "(" + s + ")" // superfluous parentheses around parameters (unwrapParenExpr)
	}
	if g.r.Chance(2) {
		return "((" + s + "))"
	}
	return s
}

func (g *gctx) scal(d int) string {
	r := g.r
	x := r.Intn(100)
	if d <= 0 && x >= 55 {
		x = r.Intn(55)
	}
	switch {
	case x < 45:
		return h.Pick(r, scalarPool)
	case x < 52:
		return "time()"
	case x < 55:
		return h.Pick(r, []string{"pi()", "start()", "end()", "step()", "range()"})
	case x < 72:
		in := g.vec(d - 1)
		if r.Chance(60) {
			in = h.Pick(r, []string{"sum", "avg", "max", "min", "count", "stddev"}) + "(" + in + ")"
		}
		return "scalar(" + in + ")"
	case x < 88:
		op := h.Pick(r, []string{"+", "-", "*", "/", "%", "^", "atan2", "== bool", "!= bool", "> bool", "< bool", ">= bool", "<= bool"})
		return "(" + g.scal(d-1) + " " + op + " " + g.scal(d-1) + ")"
	case x < 93:
		return "-" + "(" + g.scal(d-1) + ")"
	case x < 97:
		return h.Pick(r, []string{"min_of", "max_of"}) + "(" + g.scal(d-1) + ", " + g.scal(d-1) + ")"
	default:
		return "+" + g.scal(d-1)
	}
}

var aggOps = []string{"sum", "avg", "min", "max", "count", "group", "stddev", "stdvar", "topk", "bottomk", "quantile", "count_values", "limitk", "limit_ratio"}

func (g *gctx) grouping() string {
	r := g.r
	switch x := r.Intn(100); {
	case x < 35:
		return ""
	case x < 65:
		return " by(" + h.Pick(r, []string{"a", "b", "a,b", "", "le", "__name__", "nope", "a,a", "a,"}) + ")"
	default:
		return " without(" + h.Pick(r, []string{"a", "b", "a,b", "", "le", "__name__", "nope"}) + ")"
	}
}

func (g *gctx) agg(d int) string {
	r := g.r
	op := h.Pick(r, aggOps)
	in := g.typed(parser.ValueTypeVector, d-1)
	param := ""
	switch op {
	case "topk", "bottomk", "limitk":
		switch x := r.Intn(100); {
		case x < 55:
			param = strconv.Itoa(int(r.Range(0, 4)))
		case x < 75:
			param = h.Pick(r, []string{"1e18", "9.3e18", "-9.3e18", "1e19", "NaN", "Inf", "-Inf", "-1", "0.5", "2.9", "9223372036854775807", "9223372036854775808", "4294967296", "1e308"})
		default:
			param = g.typed(parser.ValueTypeScalar, d-1)
		}
	case "quantile", "limit_ratio":
		switch x := r.Intn(100); {
		case x < 50:
			param = h.Pick(r, []string{"0", "0.25", "0.5", "0.9", "1", "-0.5", "-1", "0.3"})
		case x < 75:
			param = h.Pick(r, []string{"1.5", "-1.5", "2", "-2", "NaN", "Inf", "-Inf", "1e308", "5e-324", "-0"})
		default:
			param = g.typed(parser.ValueTypeScalar, d-1)
		}
	case "count_values":
		param = g.typed(parser.ValueTypeString, 0)
	}
	if g.ill && r.Chance(10) {
		g.nIll++
		switch r.Intn(3) {
		case 0:
			if param == "" {
				param = h.Pick(r, []string{"1", `"a"`, "m1"})
			} else {
				param = ""
			}
		case 1:
			param = g.other(parser.ValueTypeScalar, d-1)
		default:
			param = "1, 2"
		}
	}
	args := in
	if param != "" {
		args = param + ", " + in
	}
	grp := g.grouping()
	if r.Bool() {
		return op + grp + " (" + args + ")"
	}
	return op + "(" + args + ")" + grp
}

var arithOps = []string{"+", "-", "*", "/", "%", "^", "atan2"}
var cmpOps = []string{"==", "!=", ">", "<", ">=", "<="}
var setOps = []string{"and", "or", "unless"}

func (g *gctx) vmatching(set bool) string {
	r := g.r
	if r.Chance(45) {
		return ""
	}
	s := " " + h.Pick(r, []string{"on", "ignoring"}) + "(" + h.Pick(r, []string{"a", "b", "a,b", "", "le", "__name__", "nope"}) + ")"
	if (!set || (g.ill && r.Chance(20))) && r.Chance(35) {
		if set {
			g.nIll++
		}
		s += " " + h.Pick(r, []string{"group_left", "group_right"})
		if r.Chance(50) {
			s += "(" + h.Pick(r, []string{"b", "a", "data", "", "__name__", "nope", "b,data"}) + ")"
		}
	}
	if !set && r.Chance(6) {
		s += " " + h.Pick(r, []string{"fill(0)", "fill_left(1)", "fill_right(NaN)", "fill(-1)", "fill_left(0) fill_right(1)"})
	}
	return s
}

func (g *gctx) binop(d int) string {
	r := g.r
	switch x := r.Intn(100); {
	case x < 30: // vector op scalar
		var op string
		if r.Chance(50) {
			op = h.Pick(r, arithOps)
		} else {
			op = h.Pick(r, cmpOps)
			if r.Chance(40) {
				op += " bool"
			}
		}
		if g.ill && r.Chance(10) {
			g.nIll++
			op = h.Pick(r, []string{"+ bool", "and", "or", "+ on(a)", "> group_left", "- ignoring(a)"})
		}
		if r.Bool() {
			return "(" + g.vec(d-1) + ") " + op + " (" + g.scal(d-1) + ")"
		}
		return "(" + g.scal(d-1) + ") " + op + " (" + g.vec(d-1) + ")"
	case x < 50: // set operators
		op := h.Pick(r, setOps)
		if g.ill && r.Chance(8) {
			g.nIll++
			op += " bool"
		}
		return "(" + g.vec(d-1) + ") " + op + g.vmatching(true) + " (" + g.vec(d-1) + ")"
	case x < 56: // trim operators on histograms
		return "(" + g.vec(d-1) + ") " + h.Pick(r, []string{"</", ">/"}) + " (" + g.scal(d-1) + ")"
	default:
		var op string
		if r.Chance(55) {
			op = h.Pick(r, arithOps)
			if g.ill && r.Chance(8) {
				g.nIll++
				op += " bool"
			}
		} else {
			op = h.Pick(r, cmpOps)
			if r.Chance(40) {
				op += " bool"
			}
		}
		return "(" + g.vec(d-1) + ") " + op + g.vmatching(false) + " (" + g.vec(d-1) + ")"
	}
}

// call generates a call of fn with argument shapes from its signature in parser.Functions.
func (g *gctx) call(name string, d int) string {
	r := g.r
	f := parser.Functions[name]
	nargs := len(f.ArgTypes)
	n := nargs
	switch {
	case f.Variadic > 0:
		n = nargs - 1 + int(r.Range(0, int64(f.Variadic)))
	case f.Variadic < 0:
		n = nargs - 1 + int(r.Range(0, 3))
	}
	if g.ill && r.Chance(8) {
		g.nIll++
		n = int(r.Range(0, int64(nargs)+2))
	}
	args := make([]string, n)
	for i := 0; i < n; i++ {
		t := f.ArgTypes[min(i, nargs-1)]
		if nargs == 0 {
			t = parser.ValueTypeScalar
		}
		args[i] = g.typed(t, d-1)
	}
	// function-specific argument pools (only when the slot is a plain literal of the right type)
	lit := func(i int, pool []string, quote bool) {
		if i < n && !(g.ill && r.Chance(5)) {
			s := h.Pick(r, pool)
			if quote {
				s = strconv.Quote(s)
			}
			if r.Chance(8) {
				s = "(" + s + ")"
			}
			args[i] = s
		}
	}
	switch name {
	case "label_replace":
		lit(1, dstPool, true)
		lit(2, replPool, true)
		lit(3, labelNames, true)
		lit(4, regexPool, true)
	case "label_join":
		lit(1, dstPool, true)
		lit(2, []string{"-", "", ",", "\xff"}, true)
		for i := 3; i < n; i++ {
			lit(i, append(labelNames, "", "0bad", "\xff"), true)
		}
	case "sort_by_label", "sort_by_label_desc":
		for i := 1; i < n; i++ {
			lit(i, append(labelNames, "", "0bad"), true)
		}
	case "histogram_quantile":
		if r.Chance(70) {
			lit(0, []string{"0", "0.5", "0.9", "0.99", "1", "-1", "2", "NaN", "Inf", "-Inf"}, false)
		}
		if r.Chance(30) && n > 1 {
			args[1] = h.Pick(r, []string{"hb_bucket", "rate(hb_bucket[1m])", "sum by(le)(hb_bucket)", "sum by(le,a)(rate(hb_bucket[2m]))", "nh", "mix", `hb_bucket{le!="+Inf"}`, `label_replace(hb_bucket, "le", "bad", "a", "x")`})
		}
	case "histogram_fraction":
		if r.Chance(70) {
			lit(0, []string{"0", "-Inf", "1", "NaN", "Inf", "-1"}, false)
			lit(1, []string{"2", "Inf", "0", "NaN", "-Inf", "1"}, false)
		}
	case "histogram_quantiles":
		lit(1, []string{"q", "quantile", "le", "a", "", "0bad", "__name__"}, true)
		for i := 2; i < n; i++ {
			if r.Chance(70) {
				lit(i, []string{"0", "0.5", "0.9", "1", "-1", "2", "NaN", "0.5", "Inf"}, false)
			}
		}
	case "quantile_over_time":
		if r.Chance(70) {
			lit(0, []string{"0", "0.5", "0.9", "1", "-1", "2", "NaN", "Inf", "-Inf"}, false)
		}
	case "double_exponential_smoothing":
		if r.Chance(80) {
			lit(1, []string{"0.5", "0.1", "0.9", "0", "1", "-1", "2", "NaN"}, false)
			lit(2, []string{"0.5", "0.1", "0.9", "0", "1", "-1", "2", "NaN"}, false)
		}
	case "round":
		if r.Chance(60) {
			lit(1, []string{"1", "0.5", "10", "0", "-1", "NaN", "Inf", "1e-320", "1e308"}, false)
		}
	case "predict_linear":
		if r.Chance(60) {
			lit(1, []string{"0", "60", "3600", "-60", "1e18", "NaN", "Inf"}, false)
		}
	case "info":
		if n > 1 {
			args[1] = h.Pick(r, []string{`{data="d1"}`, `{__name__="target_info"}`, `{data=~".+"}`, `{__name__=~".+_info", data!=""}`, `{a="x"}`, `target_info`, `{data=""}`, `{__name__="m1"}`})
		}
	case "clamp":
		if r.Chance(50) {
			lit(1, []string{"0", "1", "5", "NaN", "-Inf", "Inf"}, false)
			lit(2, []string{"2", "0", "10", "NaN", "Inf", "-Inf"}, false)
		}
	}
	return name + "(" + strings.Join(args, ", ") + ")"
}

func (g *gctx) vec(d int) string {
	r := g.r
	if d <= 0 {
		return g.selector()
	}
	switch x := r.Intn(100); {
	case x < 14:
		return g.selector()
	case x < 52: // function calls: cycle through ALL of parser.Functions returning a vector
		for k := 0; k < len(g.fnNames); k++ {
			name := g.fnNames[g.nextFn%len(g.fnNames)]
			g.nextFn++
			if parser.Functions[name].ReturnType == parser.ValueTypeVector {
				g.c.Count("fn:" + name)
				return g.call(name, d)
			}
		}
		return g.selector()
	case x < 70:
		return g.agg(d)
	case x < 92:
		return g.binop(d)
	case x < 96:
		return "-(" + g.vec(d-1) + ")"
	case x < 98:
		return "+(" + g.vec(d-1) + ")"
	default:
		return "(" + g.vec(d-1) + ")"
	}
}

// mutate applies a textual mutation (token soup / unbalanced parentheses / stray modifiers).
func (g *gctx) mutate(s string) string {
	r := g.r
	if len(s) == 0 {
		return s
	}
	g.nIll++
	switch r.Intn(7) {
	case 0:
		i := r.Intn(len(s))
		return s[:i] + s[i+1:]
	case 1:
		i := r.Intn(len(s))
		return s[:i] + h.Pick(r, []string{"(", ")", ",", "[", "]", "{", "}", " bool ", " offset 1m", " @ 5", "[5m]", "[5m:]", "-", "\"", " by(a) ", " on(a) ", "1", " and ", "*"}) + s[i:]
	case 2:
		i, j := r.Intn(len(s)), r.Intn(len(s))
		if i > j {
			i, j = j, i
		}
		return s[:i] + s[j:]
	case 3:
		return s + h.Pick(r, []string{" offset 5m", " @ 100", "[5m]", "[5m:1m]", " bool", ")", " + ", " by(a)", "[1m:1m][1m:1m]", " @ start() @ end()", " offset 1m offset 1m"})
	case 4:
		return h.Pick(r, []string{"rate(", "sum(", "-", "(", "topk(", "count_values(", "abs(", "scalar(", "vector(", "nosuchfn("}) + s + ")"
	case 5:
		return strings.Replace(s, "(", "((", 1)
	default:
		return strings.Replace(s, ",", "", 1)
	}
}

// corner cases that must always be present (regressions of "impossible" branches)
var fixedQueries = []string{
	`count_values(("v"), m1)`, `label_replace(m1, ("c"), ("$1"), ("a"), ("(.*)"))`, `label_join(m1, ("c"), ("-"), ("a"), (("b")))`,
	`rate((m1[1m]))`, `quantile_over_time((0.5), ((m1[1m])))`, `timestamp((m1))`, `timestamp(m1 @ 5)`, `timestamp((m1 offset 5s))`,
	`topk((scalar(m1)), m1)`, `sort_by_label(m1, ("a"))`, `histogram_quantiles(nh, ("q"), (0.5), 0.9)`,
	`("s")`, `(("s"))`, `(m1[1m])`, `((m1[1m] @ 5))`, `(m1)[1m:10s]`, `((m1)[1m:10s] @ end())`, `1`, `-1`, `-(m1)`, `+m1`, `time()`, `vector(time())`,
	`absent(nope)`, `absent(m1{a="x",b=~"p|q",c!="1"})`, `absent_over_time(nope[1m])`, `absent_over_time((nope)[1m:10s])`,
	`m1 and on() vector(1)`, `vector(1) or m1`, `m1 unless m1`, `m1 + on(a) group_left m2`, `m1 + on(a) group_right(b) c_total`, `c_total * on(a) group_right m1`,
	`sum(m1) by(a) / count(m1) by(a)`, `m1 == bool m1`, `1 == bool 1`, `1 > bool NaN`, `m1 ^ m2`, `m1 atan2 m2`, `nh + nh`, `nh * 2`, `2 / nh`, `nh / 0`, `nh == nh`, `nh > nh`,
	`nh </ 1`, `nh >/ 1`, `mix + mix`, `mix * nh`, `sum(mix)`, `avg(mix)`, `sum(nh)`, `avg(nh) by(a)`, `rate(mix[2m])`, `increase(nh[2m])`, `delta(nh[2m])`, `irate(mix[1m])`,
	`histogram_quantile(0.9, mix)`, `histogram_fraction(0, 1, nh)`, `histogram_count(mix)`, `histogram_sum(nh)`, `histogram_avg(nh)`, `histogram_stddev(nh)`, `histogram_stdvar(mix)`,
	`histogram_quantile(0.5, hb_bucket)`, `histogram_quantile(0.5, sum by(le)(rate(hb_bucket[2m])))`, `histogram_quantile(0.5, hb_bucket or nh)`,
	`sum_over_time(mix[2m])`, `avg_over_time(mix[2m])`, `min_over_time(mix[2m])`, `max_over_time(nh[2m])`, `last_over_time(mix[2m])`, `first_over_time(mix[2m])`,
	`stddev_over_time(mix[2m])`, `quantile_over_time(0.5, mix[2m])`, `changes(mix[2m])`, `resets(mix[2m])`, `deriv(mix[2m])`, `predict_linear(mix[2m], 60)`,
	`double_exponential_smoothing(m1[2m], 0.5, 0.5)`, `double_exponential_smoothing(mix[2m], 0.1, 0.9)`, `mad_over_time(mix[2m])`, `ts_of_max_over_time(mix[2m])`,
	`topk(1e18, m1)`, `topk(9.3e18, m1)`, `bottomk(-9.3e18, m1)`, `topk(NaN, m1)`, `limitk(NaN, m1)`, `limitk(1e19, m1)`, `limit_ratio(NaN, m1)`, `limit_ratio(2, m1)`, `limit_ratio(-2, m1)`,
	`topk(scalar(nope), m1)`, `topk(0, m1)`, `topk(-1, m1)`, `topk(1, nh)`, `topk(3, mix)`, `quantile(2, m1)`, `quantile(-1, m1)`, `quantile(NaN, m1)`, `quantile(0.5, nh)`,
	`count_values("v", nh)`, `count_values("", m1)`, `count_values("0bad", m1)`, "count_values(\"\xff\", m1)", `count_values("a", m1)`, `count_values by(v) ("v", m1)`, `count_values without(v) ("v", m1)`,
	`group(nh)`, `count(mix)`, `min(mix)`, `max(nh)`, `stddev(mix)`, `stdvar(nh)`,
	`label_replace(m1, "a", "", "a", ".*")`, `label_replace(m1, "__name__", "x", "a", ".*")`, `label_replace(m1, "b", "p", "", "")`, `label_replace(m1, "c", "$1", "a", "(")`,
	`label_replace(m1, "", "x", "a", ".*")`, `label_replace({__name__=~"m1|m2"}, "__name__", "m", "", "")`, `label_join(m1, "b", "")`, `label_join(m1, "a", "-", "b", "b", "b")`,
	`label_join(m1, "__name__", "", "a")`, `label_join({__name__=~"m1|m2"}, "__name__", "", "nope")`,
	`-{__name__=~"m1|m2"}`, `abs({__name__=~"m1|m2"})`, `{__name__=~"m1|m2"} + 1`, `sum_over_time({__name__=~"m1|m2"}[1m])`, `last_over_time({__name__=~"m1|m2"}[1m])`,
	`info(m1)`, `info(m1, {data=~".+"})`, `info(nh)`, `info(m1, {__name__="m2"})`, `info(target_info)`,
	`start_timestamp(m1)`, `start_timestamp(m1 @ 5)`, `start_timestamp(abs(m1))`,
	`m1[1m] anchored`, `rate(m1[1m] anchored)`, `rate(m1[1m] smoothed)`, `sum_over_time(m1[1m] anchored)`, `increase(nh[1m] anchored)`, `delta(mix[1m] smoothed)`, `m1 smoothed`, `nh smoothed`, `m1 anchored`,
	`rate(m1[1m:10s] anchored)`, `changes(m1[1m] anchored)`, `resets(m1[1m] smoothed)`,
	`m1 offset 100y`, `m1 offset -100y`, `m1 @ 9223372036854775`, `m1 @ -9223372036854775`, `m1[292y]`, `rate(m1[292y])`, `sum_over_time(m1[100y] offset -100y)`, `m1 @ 1e-300`,
	`(m1)[100y:1y]`, `max_over_time((time())[5m:1m])`, `scalar(m1) + scalar(nh)`, `vector(scalar(nh))`, `scalar(mix)`,
	`m1 + fill(0) m2`, `m1 + on(a) fill_left(1) fill_right(2) m2`, `m1 - on(a) group_left fill(0) c_total`, `nh + fill(0) nh`,
	`sort(nh)`, `sort_desc(mix)`, `sort_by_label(mix, "a")`, `round(m1, 0)`, `round(m1, NaN)`, `clamp(m1, 1, 0)`, `clamp(m1, NaN, 1)`, `clamp_min(nh, 1)`,
	`day_of_week()`, `hour(m1)`, `days_in_month(vector(1e18))`, `year(vector(NaN))`, `month(vector(Inf))`, `minute(nh)`,
	`step()`, `range()`, `start()`, `end()`, `m1[step()]`, `m1[range()]`, `rate(m1[max_of(step(), 1m)])`, `(m1)[1m:step()]`,
	`min_of(1, NaN)`, `max_of(Inf, -Inf)`, `1 % 0`, `0 / 0`, `(-1) ^ 0.5`, `1 atan2 1`, `m1 % 0`,
	`sum by(__name__)({__name__=~"m1|m2"})`, `sum without(__name__)(m1)`, `m1 and ignoring(__name__) m2`, `m1 or on(__name__) m2`,
	`max_over_time(sum(abs(m1))[2m:30s])`, `sum(m1 * 0)`, `topk(1, m2 * 0)`, `avg(rate(c_total[1m]))`,
	// type-incorrect / rejected by the parser
	`m1[1m] + 1`, `"a" + 1`, `-"a"`, `-(m1[1m])`, `rate(m1)`, `abs(m1[1m])`, `sum(1)`, `sum(m1[1m])`, `topk(m1, m1)`, `topk("a", m1)`, `count_values(1, m1)`, `sum(1, m1)`, `topk(m1)`,
	`1 and 1`, `m1 and 1`, `1 or m1`, `m1 + bool m2`, `1 == 1`, `m1 and on(a) group_left m2`, `m1 + on(a) group_left(a) m2`, `1 + on(a) m1`, `m1 + ignoring(a) 1`,
	`(1)[1m:10s]`, `(m1+1)[1m]`, `rate(m1[1m:10s][1m])`, `m1 offset 1m offset 1m`, `m1 @ 1 @ 2`, `time(1)`, `abs()`, `abs(m1, m1)`, `nosuch(m1)`, `label_replace(m1, "a", "b", "c")`,
	`label_replace(m1, a, "b", "c", "d")`, `label_join(m1)`, `round(m1, 1, 2)`, `clamp(m1, m1, 1)`, `vector(m1)`, `scalar(1)`, `histogram_quantile(m1, m1)`, `quantile_over_time(m1[1m], 0.5)`,
	`info(m1, m2 + 1)`, `info(m1, m2)`, `m1[0s]`, `m1[-1m]`, `m1[1m:0s]`, `{}`, `{a=~".*"}`, `m1{`, `sum(`, ``, ` `, `# comment`, `m1 anchored smoothed`, `m1 + fill("a") m2`, `m1 and fill(0) m2`,
}

func genCase(c *h.Ctx, r *h.Rng, nq int) []string {
	g := &gctx{r: r, c: c}
	for name := range parser.Functions {
		g.fnNames = append(g.fnNames, name)
	}
	sort.Strings(g.fnNames)
	g.nextFn = r.Intn(len(g.fnNames))
	g.t0 = 1_000_000 + r.Range(0, 20)*5000 + r.Range(0, 1)*r.Range(0, 999)
	g.t1 = g.t0 + h.PickI64(r, []int64{120_000, 300_000, 600_000})
	lookback := h.PickI64(r, []int64{300_000, 60_000, 45_000, 20_000})
	ops := []string{fmt.Sprintf("cfg %d", lookback)}
	as := []string{"x", "y", "z"}
	bs := []string{"p", "q"}
	na := int(r.Range(1, 3))
	type sk struct{ name, lbls string }
	var all []sk
	add := func(name, lbls, kind string) {
		ops = append(ops, g.series(name, lbls, kind, lookback))
		all = append(all, sk{name, lbls})
	}
	for _, m := range []string{"m1", "m2"} {
		for i := 0; i < na; i++ {
			for _, b := range bs {
				if r.Chance(12) {
					continue
				}
				add(m, fmt.Sprintf("a:%s,b:%s", as[i], b), "gauge")
			}
		}
	}
	for i := 0; i < na; i++ {
		add("c_total", "a:"+as[i], "counter")
	}
	for i := 0; i < 2; i++ {
		for _, le := range []string{"0.1", "1", "10", "+Inf"} {
			if r.Chance(5) {
				continue
			}
			add("hb_bucket", fmt.Sprintf("a:%s,le:%s", as[i], le), "counter")
		}
	}
	// further classic histograms (a=z0..z11), each with a degenerate bucket layout: only +Inf, +Inf under several spellings
	// (they coalesce into one bucket), one finite bucket, equal bounds spelled differently, NaN / unparsable /
	// negative bounds, no +Inf bucket
	{
		shapes := [][]string{
			{"+Inf"}, {"+Inf", "Inf"}, {"+Inf", "Inf", "+inf", "Infinity"}, {"1"}, {"1", "1.0", "1e0", "+Inf"},
			{"1", "1.0"}, {"NaN", "+Inf"}, {"bad", "+Inf"}, {"-1", "-0.5", "+Inf"}, {"0.1", "1", "10"},
			{"-Inf", "+Inf"}, {"0", "-0", "+Inf"},
		}
		for i, sh := range shapes {
			if r.Chance(25) {
				continue
			}
			for _, le := range sh {
				add("hb_bucket", fmt.Sprintf("a:z%d,le:%s", i, le), "counter")
			}
		}
	}
	for i := 0; i < 2; i++ {
		add("nh", "a:"+as[i], "hist")
		add("mix", "a:"+as[i], "mixed")
	}
	add("target_info", "a:x,data:d1", "info")
	if r.Chance(50) {
		add("target_info", "a:y,data:d2", "info")
	}
	if r.Chance(30) {
		add("target_info", "a:x,data:d3", "info") // ambiguous info series for a="x"
	}
	add("gone", "a:x", "gauge")
	// deletions: always two intervals on one series (regression of the Intervals.Add index panic), plus random ones
	ops = append(ops, fmt.Sprintf("del gone a:x %d %d", g.t0+10000, g.t0+20000), fmt.Sprintf("del gone a:x %d %d", g.t0+50000, g.t0+60000))
	nd := int(r.Range(0, 4))
	for i := 0; i < nd; i++ {
		s := all[r.Intn(len(all))]
		a := r.Range(g.t0-5000, g.t1)
		b := a + h.PickI64(r, []int64{0, 1, 5000, 15000, 60000, 1 << 40})
		if r.Chance(10) {
			a, b = math.MinInt64, g.t0+r.Range(0, 60000)
		}
		if r.Chance(10) {
			b = math.MaxInt64
		}
		ops = append(ops, fmt.Sprintf("del %s %s %d %d", s.name, s.lbls, a, b))
	}
	g.ats = append(g.ats, g.t0, g.t1, g.t0+55000)

	emit := func(qs string) {
		eng := "main"
		switch x := r.Intn(100); {
		case x < 70:
		case x < 88:
			eng = "dnr"
		case x < 96:
			eng = "small"
		default:
			eng = "cancel"
		}
		if r.Chance(55) {
			ts := r.Range(g.t0-60000, g.t1+30000)
			if r.Chance(30) && len(g.ats) > 0 {
				ts = h.PickI64(r, g.ats)
			}
			if r.Chance(2) {
				ts = h.PickI64(r, []int64{0, -1, 1 << 53, -(1 << 53), 9223372036854, -9223372036854})
			}
			ops = append(ops, fmt.Sprintf("iq %s %d %s", eng, ts, h.HexS(qs)))
			return
		}
		step := h.PickI64(r, []int64{1000, 5000, 10000, 15000, 15000, 30000, 60000, 120000, 7000, 61000, 1, 3600000})
		nsteps := r.Range(1, 12)
		if r.Chance(8) {
			nsteps = r.Range(13, 60)
		}
		start := r.Range(g.t0-60000, g.t1)
		if r.Chance(40) {
			start = start / 5000 * 5000
		}
		if r.Chance(15) && len(g.ats) > 0 {
			start = h.PickI64(r, g.ats)
		}
		end := start + (nsteps-1)*step
		if r.Chance(30) {
			end += r.Range(0, step-1)
		}
		ops = append(ops, fmt.Sprintf("rq %s %d %d %d %s", eng, start, end, step, h.HexS(qs)))
	}

	// every case: the histogram functions over the classic histograms (degenerate layouts included), instant at
	// a time where the counters are non-zero and as a range
	for _, qs := range []string{
		`histogram_quantile(0.5, hb_bucket)`, `histogram_quantile(0.9, rate(hb_bucket[2m]))`,
		`histogram_quantile(0.5, sum by(le)(hb_bucket))`, `histogram_quantile(1, hb_bucket{a=~"z.*"})`,
		`histogram_quantile(0, hb_bucket{a=~"z.*"})`, `histogram_quantile(NaN, hb_bucket)`,
		`histogram_quantiles(hb_bucket, "q", 0.1, 0.5, 0.99)`, `histogram_fraction(0, 1, hb_bucket)`,
	} {
		ops = append(ops, fmt.Sprintf("iq main %d %s", g.t0+55000, h.HexS(qs)))
		ops = append(ops, fmt.Sprintf("rq main %d %d %d %s", g.t0, g.t1, (g.t1-g.t0)/7+1, h.HexS(qs)))
	}
	for k := 0; k < nq; k++ {
		var qs string
		g.nIll = 0
		x := r.Intn(100)
		switch {
		case x < 22:
			qs = h.Pick(r, fixedQueries)
			c.Count("gen:fixed")
		default:
			g.ill = x >= 75
			depth := int(r.Range(1, 3))
			switch y := r.Intn(100); {
			case y < 78:
				qs = g.vec(depth)
			case y < 90:
				qs = g.scal(depth)
			case y < 96:
				qs = g.mat(depth)
			default:
				qs = g.strLit()
			}
			if g.ill && r.Chance(25) {
				qs = g.mutate(qs)
			}
			if g.nIll > 0 {
				c.Count("gen:ill-typed-injected")
			} else {
				c.Count("gen:well-typed-intended")
			}
		}
		if len(qs) > 1500 {
			qs = `m1`
		}
		emit(qs)
	}
	return ops
}
