// Suite labels (C39): generated op sequences over labels.Labels / Builder / ScratchBuilder, run in the
// build selected by the tags (stringlabels = default, slicelabels, dedupelabels).  The same suite is
// registered three times in checks/C39.json; every build must equal the one Lean model.
package main

import (
	"fmt"
	"slices"
	"sort"
	"strconv"
	"strings"
	"unicode/utf8"

	"github.com/prometheus/common/model"
	"github.com/prometheus/prometheus/model/labels"

	"verif/harness/h"
)

func flavor() string {
	switch labels.ImplementationName {
	case "stringlabels":
		return "string"
	case "slicelabels":
		return "slice"
	case "dedupelabels":
		return "dedupe"
	}
	return labels.ImplementationName
}

// ---------------------------------------------------------------- executing ops

type state struct {
	sets   []labels.Labels
	hashes []uint64
	st     *labels.SymbolTable
	b      *labels.Builder
	sb     labels.ScratchBuilder
}

func newState() *state {
	s := &state{st: labels.NewSymbolTable()}
	s.b = labels.NewBuilderWithSymbolTable(s.st)
	s.sb = labels.NewScratchBuilderWithSymbolTable(s.st, 0)
	return s
}

func items(ls []labels.Label) string {
	if len(ls) == 0 {
		return "."
	}
	parts := make([]string, len(ls))
	for i, l := range ls {
		parts[i] = h.HexS(l.Name) + ":" + h.HexS(l.Value)
	}
	return strings.Join(parts, ",")
}

func rangeOf(ls labels.Labels) []labels.Label {
	var out []labels.Label
	ls.Range(func(l labels.Label) { out = append(out, l) })
	return out
}

func tf(b bool) string {
	if b {
		return "t"
	}
	return "f"
}

// desc registers a produced set and prints every cheap observable of it.
func (s *state) desc(ls labels.Labels) string {
	idx := len(s.sets)
	hv := ls.Hash()
	hc := idx
	for j, x := range s.hashes {
		if x == hv {
			hc = j
			break
		}
	}
	dup := "!"
	if n, ok := ls.HasDuplicateLabelNames(); ok {
		dup = h.HexS(n)
	}
	out := fmt.Sprintf("set %d len=%d dup=%s h=%d v=%s%s b=%s s=%s ls=%s", idx, ls.Len(), dup, hc,
		tf(ls.IsValid(model.LegacyValidation)), tf(ls.IsValid(model.UTF8Validation)),
		h.Hex(ls.Bytes(nil)), h.HexS(ls.String()), items(rangeOf(ls)))
	s.sets = append(s.sets, ls)
	s.hashes = append(s.hashes, hv)
	return out
}

func unhexAll(ts []string) []string {
	out := make([]string, len(ts))
	for i, t := range ts {
		out[i] = string(h.UnHex(t))
	}
	return out
}

func pairs(ss []string) []labels.Label {
	var out []labels.Label
	for i := 0; i+1 < len(ss); i += 2 {
		out = append(out, labels.Label{Name: ss[i], Value: ss[i+1]})
	}
	return out
}

func (s *state) set(tok string) (labels.Labels, bool) {
	i, err := strconv.Atoi(tok)
	if err != nil || i < 0 || i >= len(s.sets) {
		return labels.EmptyLabels(), false
	}
	return s.sets[i], true
}

// exec runs one op line against the real code and returns the canonical output line.
func (s *state) exec(op string) (out string) {
	f := strings.Fields(op)
	if len(f) == 0 {
		return "bad-op"
	}
	var produced *labels.Labels
	body := func() {
		switch f[0] {
		case "impl":
			out = "ok"
		case "prefill":
			n, _ := strconv.Atoi(f[1])
			prefill(s.st, n)
			out = "ok"
		case "new":
			l := labels.New(pairs(unhexAll(f[1:]))...)
			produced = &l
		case "fm":
			m := map[string]string{}
			for _, p := range pairs(unhexAll(f[1:])) {
				m[p.Name] = p.Value
			}
			l := labels.FromMap(m)
			produced = &l
		case "fs":
			l := labels.FromStrings(unhexAll(f[1:])...)
			produced = &l
		case "empty":
			l := labels.EmptyLabels()
			produced = &l
		case "b.reset":
			ls, ok := s.set(f[1])
			if !ok {
				out = "bad-index"
				return
			}
			s.b.Reset(ls)
			out = "ok"
		case "b.set":
			a := unhexAll(f[1:])
			s.b.Set(a[0], a[1])
			out = "ok"
		case "b.del":
			s.b.Del(unhexAll(f[1:])...)
			out = "ok"
		case "b.keep":
			s.b.Keep(unhexAll(f[1:])...)
			out = "ok"
		case "b.get":
			out = "v " + h.HexS(s.b.Get(unhexAll(f[1:])[0]))
		case "b.range":
			var r []labels.Label
			s.b.Range(func(l labels.Label) { r = append(r, l) })
			out = "r " + items(r)
		case "b.labels":
			l := s.b.Labels()
			produced = &l
		case "s.reset":
			s.sb.Reset()
			out = "ok"
		case "s.add":
			a := unhexAll(f[1:])
			s.sb.Add(a[0], a[1])
			out = "ok"
		case "s.sort":
			s.sb.Sort()
			out = "ok"
		case "s.assign":
			ls, ok := s.set(f[1])
			if !ok {
				out = "bad-index"
				return
			}
			s.sb.Assign(ls)
			out = "ok"
		case "s.labels":
			l := s.sb.Labels()
			produced = &l
		case "s.over":
			ls, ok := s.set(f[1])
			if !ok {
				out = "bad-index"
				return
			}
			l := ls.Copy()
			s.sb.Overwrite(&l)
			l = l.Copy() // the overwrite buffer is reused by the next Overwrite
			produced = &l
		case "get", "has":
			ls, ok := s.set(f[1])
			if !ok {
				out = "bad-index"
				return
			}
			n := unhexAll(f[2:3])[0]
			if f[0] == "get" {
				out = "v " + h.HexS(ls.Get(n))
			} else {
				out = strconv.FormatBool(ls.Has(n))
			}
		case "cmp":
			a, ok1 := s.set(f[1])
			b, ok2 := s.set(f[2])
			if !ok1 || !ok2 {
				out = "bad-index"
				return
			}
			c := labels.Compare(a, b)
			sign := 0
			if c < 0 {
				sign = -1
			} else if c > 0 {
				sign = 1
			}
			out = fmt.Sprintf("%d %v", sign, labels.Equal(a, b))
		case "bwl", "bwol":
			ls, ok := s.set(f[1])
			if !ok {
				out = "bad-index"
				return
			}
			ns := unhexAll(f[2:])
			if f[0] == "bwl" {
				out = "b " + h.Hex(ls.BytesWithLabels(nil, ns...))
			} else {
				out = "b " + h.Hex(ls.BytesWithoutLabels(nil, ns...))
			}
		case "we", "copy", "rebuild", "dmn", "dr", "ml":
			ls, ok := s.set(f[1])
			if !ok {
				out = "bad-index"
				return
			}
			var l labels.Labels
			switch f[0] {
			case "we":
				l = ls.WithoutEmpty()
			case "copy":
				l = ls.Copy()
			case "rebuild":
				// what tsdb.Head.RebuildSymbolTable does to every series' label set
				st := labels.NewSymbolTable()
				builder := labels.NewScratchBuilderWithSymbolTable(st, 0)
				builder.Reset()
				ls.Range(func(l labels.Label) { builder.Add(l.Name, l.Value) })
				l = builder.Labels()
			case "dmn":
				l = ls.DropMetricName()
			case "dr":
				ns := unhexAll(f[2:])
				l = ls.DropReserved(func(n string) bool { return slices.Contains(ns, n) })
			case "ml":
				if f[2] != "on" && f[2] != "off" {
					out = "bad-op"
					return
				}
				l = ls.MatchLabels(f[2] == "on", unhexAll(f[3:])...)
			}
			produced = &l
		default:
			out = "bad-op"
		}
	}
	if p, _ := h.Try(body); p {
		return "panic"
	}
	if produced != nil {
		return s.desc(*produced)
	}
	return out
}

func runCase(c *h.Ctx, ops []string) {
	s := newState()
	for _, op := range ops {
		o := s.exec(op)
		if o == "panic" {
			c.Count("out:panic")
		}
		c.Op(op, o)
	}
}

// ---------------------------------------------------------------- generator

func rep(s string, n int) string { return strings.Repeat(s, n) }

var namePool = []string{
	"a", "b", "c", "aa", "ab", "abc", "abcd", "abcdefg", "abcdefgh", "abcdefghi", "abcdefgh0", "a_b", "__name__", "_x", "__a", "_",
	"le", "job", "instance", "z", "zz", "Z", "A1", "0a", "a.b", "a-b", "\u00e9", "a\u00e9", "\u4e16", "\U0001F600x", "~", "`", "^", "^a", "`a",
	"a\"b", "a\\b", "a\nb", "\x7f", "\u0080", "\u00a0", "\u00ad", "\ufffd", "a b", "a:b", "__name", "__name___", "__type__", "__unit__",
}

var valuePool = []string{
	"", "", "1", "2", "v", "value", "a", "b", "\u00e9", "x y", "\"q\"", "\\", "\n", "\t", "\x00", "a\x01", "metric", "m:1", "0m", "\u4e16\u754c",
	"\U0001F600", " ", "\u0085", "\u00ad", "\u00a0", "abcdefgh", "abcdefghi", "~", "\x7f", "\u00ff", "\u0100", "\u03bb",
}

func shuffle[T any](r *h.Rng, xs []T) {
	for i := len(xs) - 1; i > 0; i-- {
		j := r.Intn(i + 1)
		xs[i], xs[j] = xs[j], xs[i]
	}
}

type gen struct {
	c    *h.Ctx
	r    *h.Rng
	s    *state
	ops  []string
	wild bool
	// scratch builder bookkeeping (conservative)
	sbN      int
	sbNames  map[string]bool
	sbSorted bool
	sbDirty  bool // Labels()/Assign() happened since the last Reset
	bAdds    int
	bBase    int
	longUsed bool
	huge     bool
}

func (g *gen) emit(op string) string {
	o := g.s.exec(op)
	g.ops = append(g.ops, op)
	g.c.Op(op, o)
	g.c.Count("op:" + strings.Fields(op)[0])
	if o == "panic" {
		g.c.Count("out:panic")
	}
	return o
}

func (g *gen) name() string {
	r := g.r
	switch {
	case r.Chance(70):
		return h.Pick(r, namePool)
	case r.Chance(50):
		return h.Pick(r, namePool) + h.Pick(r, []string{"x", "0", "_", "\u00e9", "\x01"})
	case r.Chance(20):
		// lengths around the 1-byte/4-byte length prefix boundary of stringlabels
		return rep("n", int(h.Pick(r, []int{253, 254, 255, 256, 300}))-1) + h.Pick(r, []string{"a", "b"})
	default:
		return fmt.Sprintf("l%d", r.Intn(40))
	}
}

func (g *gen) value() string {
	r := g.r
	switch x := r.Intn(1000); {
	case x < 750:
		return h.Pick(r, valuePool)
	case x < 900:
		return fmt.Sprintf("v%d", r.Intn(5))
	case x < 930:
		// 1-byte/4-byte length prefix boundary (stringlabels), 1 KiB hashing buffer (slice/dedupe Hash)
		return rep("v", int(h.Pick(r, []int{254, 255, 256, 257, 1000, 1021, 1022, 1023, 1024, 1100}))-1) + h.Pick(r, []string{"a", "b"})
	case x < 935 && g.huge && !g.longUsed:
		g.longUsed = true
		return rep("L", int(h.Pick(r, []int{65535, 65536, 65537}))-1) + "x"
	default:
		return "w"
	}
}

// nonEmptyValue for positions where the clean stream wants real values.
func (g *gen) nvalue() string {
	for {
		if v := g.value(); v != "" {
			return v
		}
	}
}

func hexPairs(ls []labels.Label) string {
	var sb strings.Builder
	for _, l := range ls {
		sb.WriteString(" " + h.HexS(l.Name) + " " + h.HexS(l.Value))
	}
	return sb.String()
}

func hexNames(ns []string) string {
	var sb strings.Builder
	for _, n := range ns {
		sb.WriteString(" " + h.HexS(n))
	}
	return sb.String()
}

// labelList draws n labels; in clean cases names are distinct and values non-empty (mostly).
func (g *gen) labelList(n int) []labels.Label {
	var out []labels.Label
	seen := map[string]bool{}
	for len(out) < n {
		nm := g.name()
		if !g.wild && seen[nm] {
			continue
		}
		seen[nm] = true
		v := g.value()
		if !g.wild && v == "" && !g.r.Chance(10) {
			v = g.nvalue()
		}
		out = append(out, labels.Label{Name: nm, Value: v})
	}
	return out
}

func (g *gen) maxLabels() int {
	if g.wild {
		return 6
	}
	if g.r.Chance(15) {
		return 30
	}
	return 8
}

func (g *gen) anySet() int { return g.r.Intn(len(g.s.sets)) }

// nameFor draws a query name related to set i: present, near miss, or from the pool.
func (g *gen) nameFor(i int) string {
	r := g.r
	ls := rangeOf(g.s.sets[i])
	if len(ls) > 0 && r.Chance(75) {
		n := h.Pick(r, ls).Name
		switch {
		case r.Chance(65):
			return n
		case r.Chance(30) && len(n) > 1 && utf8.ValidString(n[:len(n)-1]):
			return n[:len(n)-1]
		case r.Chance(40):
			return n + "x"
		case r.Chance(50) && len(n) > 0 && n[0] < 0x7f && n[0] > 0x21:
			return string([]byte{n[0] + 1}) + n[1:]
		case len(n) > 0 && n[0] < 0x7f && n[0] > 0x21:
			return string([]byte{n[0] - 1}) + n[1:]
		}
		return n
	}
	if r.Chance(8) {
		return ""
	}
	return g.name()
}

func (g *gen) nameList(i int, max int) []string {
	n := g.r.Intn(max + 1)
	var out []string
	for k := 0; k < n; k++ {
		out = append(out, g.nameFor(i))
	}
	if !g.wild || g.r.Chance(70) {
		sort.Strings(out)
		if !g.wild {
			out = slices.Compact(out)
		}
	}
	return out
}

func (g *gen) construct() {
	r := g.r
	n := r.Intn(g.maxLabels() + 1)
	// variant of an existing set: one label changed / dropped / appended (near-equal sets for Compare, Hash, Bytes)
	if len(g.s.sets) > 0 && r.Chance(35) {
		ls := rangeOf(g.s.sets[g.anySet()])
		ls = slices.Clone(ls)
		if len(ls) > 0 {
			k := r.Intn(len(ls))
			switch r.Intn(5) {
			case 0:
				ls[k].Value = g.nvalue()
			case 1:
				ls[k].Value += h.Pick(r, []string{"a", "\x00", "\u00e9"})
			case 2:
				ls = ls[:len(ls)-1]
			case 3:
				nm := ls[k].Name + h.Pick(r, []string{"a", "0", "_"})
				if g.wild || !slices.ContainsFunc(ls, func(l labels.Label) bool { return l.Name == nm }) {
					ls[k].Name = nm
				}
			case 4:
				nm := g.name()
				if g.wild || !slices.ContainsFunc(ls, func(l labels.Label) bool { return l.Name == nm }) {
					ls = append(ls, labels.Label{Name: nm, Value: g.nvalue()})
				}
			}
		}
		if !g.wild || len(ls) <= 8 {
			shuffle(r, ls)
			g.emit("new" + hexPairs(ls))
			return
		}
	}
	ls := g.labelList(n)
	switch r.Intn(10) {
	case 0, 1, 2, 3:
		g.emit("new" + hexPairs(ls))
	case 4, 5, 6:
		op := "fs" + hexPairs(ls)
		if r.Chance(3) {
			op += " " + h.HexS("odd")
		}
		g.emit(op)
	case 7, 8:
		// a Go map cannot hold duplicate keys: make them distinct for the op line
		seen := map[string]bool{}
		var d []labels.Label
		for _, l := range ls {
			if !seen[l.Name] {
				seen[l.Name] = true
				d = append(d, l)
			}
		}
		g.emit("fm" + hexPairs(d))
	default:
		g.emit("empty")
	}
}

func (g *gen) builderOps() {
	r := g.r
	if len(g.s.sets) == 0 {
		return
	}
	if r.Chance(80) {
		i := g.anySet()
		g.emit(fmt.Sprintf("b.reset %d", i))
		g.bAdds, g.bBase = 0, g.s.sets[i].Len()
	}
	base := 0
	if len(g.s.sets) > 0 {
		base = g.anySet()
	}
	n := 1 + r.Intn(8)
	for k := 0; k < n; k++ {
		switch x := r.Intn(100); {
		case x < 40:
			if g.wild && g.bBase+g.bAdds+1 > 12 {
				continue
			}
			nm := g.nameFor(base)
			if nm == "" && !g.wild {
				nm = g.name()
			}
			if nm == "" {
				continue // empty label names are outside every build's contract (Get panics in dedupelabels)
			}
			g.emit("b.set " + h.HexS(nm) + " " + h.HexS(g.value()))
			g.bAdds++
		case x < 58:
			g.emit("b.del" + hexNames(g.nameListRaw(base, 3)))
		case x < 68:
			g.emit("b.keep" + hexNames(g.nameListRaw(base, 5)))
		case x < 82:
			g.emit("b.get " + h.HexS(g.nameFor(base)))
		case x < 90:
			g.emit("b.range")
		default:
			g.emit("b.labels")
		}
	}
	g.emit("b.labels")
	if r.Chance(50) {
		g.emit("b.range")
		g.emit("b.get " + h.HexS(g.nameFor(base)))
	}
}

func (g *gen) nameListRaw(i, max int) []string {
	n := g.r.Intn(max + 1)
	var out []string
	for k := 0; k < n; k++ {
		out = append(out, g.nameFor(i))
	}
	return out
}

func (g *gen) scratchOps() {
	r := g.r
	reset := func() {
		g.emit("s.reset")
		g.sbN, g.sbNames, g.sbSorted, g.sbDirty = 0, map[string]bool{}, true, false
	}
	if g.sbNames == nil || r.Chance(75) || !g.wild {
		reset()
	}
	if len(g.s.sets) > 0 && r.Chance(12) {
		i := g.anySet()
		g.emit(fmt.Sprintf("s.assign %d", i))
		g.sbDirty = true
		g.sbN += g.s.sets[i].Len()
		if !g.wild {
			g.emit("s.labels")
			return
		}
	}
	n := r.Intn(g.maxLabels() + 1)
	for k := 0; k < n; k++ {
		nm := g.name()
		if !g.wild && g.sbNames[nm] {
			continue
		}
		g.sbNames[nm] = true
		v := g.value()
		if !g.wild && v == "" && !r.Chance(10) {
			v = g.nvalue()
		}
		g.emit("s.add " + h.HexS(nm) + " " + h.HexS(v))
		g.sbN++
		g.sbSorted = false
		if g.wild && r.Chance(8) && g.sbN <= 12 {
			g.emit("s.sort")
		}
		if g.wild && r.Chance(6) {
			g.emit("s.labels")
			g.sbDirty = true
		}
	}
	if !g.wild || (r.Chance(70) && g.sbN <= 12) {
		g.emit("s.sort")
		g.sbSorted = true
	}
	g.emit("s.labels")
	g.sbDirty = true
	if r.Chance(25) && len(g.s.sets) > 0 {
		g.emit(fmt.Sprintf("s.over %d", g.anySet()))
	}
}

func (g *gen) queries() {
	r := g.r
	if len(g.s.sets) == 0 {
		return
	}
	n := 1 + r.Intn(6)
	for k := 0; k < n; k++ {
		i := g.anySet()
		switch x := r.Intn(100); {
		case x < 22:
			g.emit(fmt.Sprintf("get %d %s", i, h.HexS(g.nameFor(i))))
		case x < 40:
			g.emit(fmt.Sprintf("has %d %s", i, h.HexS(g.nameFor(i))))
		case x < 58:
			g.emit(fmt.Sprintf("cmp %d %d", i, g.anySet()))
		case x < 66:
			g.emit(fmt.Sprintf("bwl %d%s", i, hexNames(g.nameList(i, 4))))
		case x < 74:
			g.emit(fmt.Sprintf("bwol %d%s", i, hexNames(g.nameList(i, 4))))
		case x < 79:
			g.emit(fmt.Sprintf("we %d", i))
		case x < 82:
			g.emit(fmt.Sprintf("copy %d", i))
		case x < 86:
			g.emit(fmt.Sprintf("rebuild %d", i))
		case x < 90:
			g.emit(fmt.Sprintf("dmn %d", i))
		case x < 94:
			ns := g.nameListRaw(i, 3)
			if r.Chance(50) {
				ns = append(ns, "__name__")
			}
			g.emit(fmt.Sprintf("dr %d%s", i, hexNames(ns)))
		default:
			onoff := "on"
			if r.Bool() {
				onoff = "off"
			}
			g.emit(fmt.Sprintf("ml %d %s%s", i, onoff, hexNames(g.nameListRaw(i, 4))))
		}
	}
}

func genCase(c *h.Ctx, id string, wild bool) {
	r := c.Rng
	c.Case(id)
	g := &gen{c: c, r: r, s: newState(), wild: wild, huge: r.Intn(150) == 0}
	g.emit("impl " + flavor())
	if r.Chance(5) {
		g.emit(fmt.Sprintf("prefill %d", 32768-r.Intn(12)))
		c.Count("prefill:32k")
	} else if c.Tier == "thorough" && r.Intn(4000) == 0 {
		g.emit(fmt.Sprintf("prefill %d", (1<<22)-r.Intn(12)))
		c.Count("prefill:4M")
	}
	g.construct()
	steps := 2 + r.Intn(7)
	for k := 0; k < steps; k++ {
		switch x := r.Intn(100); {
		case x < 25:
			g.construct()
		case x < 55:
			g.builderOps()
		case x < 72:
			g.scratchOps()
		default:
			g.queries()
		}
	}
	// closing block: all ordered pairs over a few sets (antisymmetry / transitivity in the judge)
	if len(g.s.sets) > 0 {
		var pick []int
		for k := 0; k < 4 && k < len(g.s.sets); k++ {
			pick = append(pick, g.anySet())
		}
		for _, i := range pick {
			for _, j := range pick {
				g.emit(fmt.Sprintf("cmp %d %d", i, j))
			}
		}
	}
	if wild {
		c.Count("stream:wild")
	} else {
		c.Count("stream:clean")
	}
	c.Count(fmt.Sprintf("sets:%d", min(len(g.s.sets)/5*5, 30)))
	c.NonTrivial(strings.Join(g.ops, ";"))
}

func main() {
	c := h.Init()
	defer c.Finish()
	if c.Replay != "" {
		for _, cs := range c.ReplayCases() {
			c.Case(strings.TrimPrefix(cs[0], "case "))
			ops := cs[1:]
			for i, op := range ops {
				// a replay recorded under another build runs here as this build
				if strings.HasPrefix(op, "impl ") {
					ops[i] = "impl " + flavor()
				}
			}
			runCase(c, ops)
		}
		return
	}
	for i := 0; i < c.N; i++ {
		wild := c.Rng.Chance(45)
		genCase(c, fmt.Sprintf("%s%d", map[bool]string{true: "w", false: "c"}[wild], i), wild)
	}
}
