//go:build !dedupelabels

package main

import "github.com/prometheus/prometheus/model/labels"

func prefill(*labels.SymbolTable, int) {}
