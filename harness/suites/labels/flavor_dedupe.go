//go:build dedupelabels

package main

import (
	"strconv"

	"github.com/prometheus/prometheus/model/labels"
)

// prefill pushes n dummy symbols into the table so that later symbols get 3- and 4-byte varints.
func prefill(st *labels.SymbolTable, n int) {
	for i := 0; i < n; i++ {
		st.ToNum("\x01fill" + strconv.Itoa(i))
	}
}
