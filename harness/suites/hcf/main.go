// Suite hcf (C25): the real chunks.ChunkDiskMapper (head chunk files + asynchronous write queue) driven
// by generated write / read / cut / truncate / restart sequences. With a queue the worker is parked
// through the verif hook (before writeChunk, after writeChunk), so reads are placed at every queue
// position; in "free" mode the worker runs unhindered and reads race with it. `torn` copies the directory
// as a crash would leave it, truncates the newest file and reopens it the way the head does.
package main

import (
	"errors"
	"fmt"
	"os"
	"path/filepath"
	"runtime"
	"sort"
	"strconv"
	"strings"
	"sync"
	"time"

	"github.com/prometheus/prometheus/tsdb/chunkenc"
	"github.com/prometheus/prometheus/tsdb/chunks"

	"verif/harness/h"
)

const writeBufferSize = chunks.MinWriteBufferSize

type rawChunk struct {
	chunkenc.Chunk
	enc byte
	b   []byte
}

func (c rawChunk) Bytes() []byte               { return c.b }
func (c rawChunk) Encoding() chunkenc.Encoding { return chunkenc.Encoding(c.enc) }

func fnv(b []byte) uint64 {
	x := uint64(0xcbf29ce484222325)
	for _, c := range b {
		x = (x ^ uint64(c)) * 0x100000001b3
	}
	return x
}

func genData(seed uint64, n int) []byte {
	out := make([]byte, n)
	x := seed & 0x7fffffff
	for i := range out {
		x = (x*1103515245 + 12345) & 0x7fffffff
		out[i] = byte(x >> 16)
	}
	return out
}

func parseData(s string) ([]byte, bool) {
	switch {
	case s == "-":
		return nil, true
	case strings.HasPrefix(s, "x"):
		var b []byte
		if pan, _ := h.Try(func() { b = h.UnHex(s[1:]) }); pan {
			return nil, false
		}
		return b, true
	case strings.HasPrefix(s, "g"):
		p := strings.Split(s[1:], ":")
		if len(p) != 2 {
			return nil, false
		}
		seed, e1 := strconv.ParseUint(p[0], 10, 64)
		n, e2 := strconv.Atoi(p[1])
		if e1 != nil || e2 != nil || n < 0 || n > 1<<22 {
			return nil, false
		}
		return genData(seed, n), true
	}
	return nil, false
}

func refStr(r chunks.ChunkDiskMapperRef) string {
	s, o := r.Unpack()
	return fmt.Sprintf("%d:%d", s, o)
}

func parseRef(s string) (chunks.ChunkDiskMapperRef, bool) {
	p := strings.Split(s, ":")
	if len(p) != 2 {
		return 0, false
	}
	a, e1 := strconv.ParseUint(p[0], 10, 31)
	b, e2 := strconv.ParseUint(p[1], 10, 32)
	if e1 != nil || e2 != nil {
		return 0, false
	}
	return chunks.ChunkDiskMapperRef(a<<32 | b), true
}

func errClass(err error) string {
	if err == nil {
		return "ok"
	}
	m := err.Error()
	switch {
	case errors.Is(err, chunks.ErrChunkDiskMapperClosed):
		return "closed"
	case strings.Contains(m, "more than current open file"):
		return "gt"
	case strings.Contains(m, "does not exist on disk"):
		return "missing"
	case strings.Contains(m, "enough bytes to read the chunk size data field"):
		return "short"
	case strings.Contains(m, "reading chunk length failed"):
		return "uvarint"
	case strings.Contains(m, "enough bytes to read the chunk -"):
		return "short2"
	case strings.Contains(m, "checksum mismatch"):
		return "crc"
	case strings.Contains(m, "invalid chunk encoding"):
		return "badenc"
	case strings.Contains(m, "expected newly cut file to have sequence"):
		return "expect"
	}
	return "other"
}

type event struct {
	after bool
	ref   chunks.ChunkDiskMapperRef
	err   error
}

type world struct {
	c        *h.Ctx
	dir      string
	q        int
	mode     string // s | g | f
	m        *chunks.ChunkDiskMapper
	dead     bool
	events   chan event
	permit   chan struct{}
	wstate   int // 0 idle, 1 before, 2 after
	held     chunks.ChunkDiskMapperRef
	queued   int
	poisoned bool
	issued   map[chunks.ChunkDiskMapperRef]bool
	startup  map[int]bool
	cbMtx    sync.Mutex
	cbDone   map[chunks.ChunkDiskMapperRef]error
	// generator knowledge
	refs  []chunks.ChunkDiskMapperRef
	rlens map[chunks.ChunkDiskMapperRef]int
}

func (w *world) cleanup() {
	if w.m != nil {
		w.releaseAll()
		_ = w.m.Close()
		w.m = nil
	}
	if w.dir != "" {
		os.RemoveAll(w.dir)
		w.dir = ""
	}
}

func listSeqs(dir string) []int {
	ents, _ := os.ReadDir(dir)
	var out []int
	for _, e := range ents {
		if n, err := strconv.ParseUint(e.Name(), 10, 64); err == nil {
			out = append(out, int(n))
		}
	}
	sort.Ints(out)
	return out
}

func seqList(xs []int) string {
	if len(xs) == 0 {
		return "-"
	}
	p := make([]string, len(xs))
	for i, x := range xs {
		p[i] = strconv.Itoa(x)
	}
	return strings.Join(p, ",")
}

func (w *world) openMapper() bool {
	qs := 0
	if w.mode != "s" {
		qs = w.q
	}
	m, err := chunks.NewChunkDiskMapper(nil, w.dir, chunkenc.NewPool(), writeBufferSize, qs)
	if err != nil {
		w.dead = true
		w.m = nil
		return false
	}
	w.m = m
	w.wstate, w.queued, w.poisoned = 0, 0, false
	w.issued = map[chunks.ChunkDiskMapperRef]bool{}
	w.startup = map[int]bool{}
	for _, s := range listSeqs(w.dir) {
		w.startup[s] = true
	}
	w.cbDone = map[chunks.ChunkDiskMapperRef]error{}
	if w.mode == "g" {
		w.events = make(chan event, 4)
		w.permit = make(chan struct{})
		ev, pm := w.events, w.permit
		m.VerifInstallWriteHook(func(ref chunks.ChunkDiskMapperRef) {
			ev <- event{false, ref, nil}
			<-pm
		}, func(ref chunks.ChunkDiskMapperRef, err error) {
			ev <- event{true, ref, err}
			<-pm
		})
	}
	return true
}

func (w *world) waitIdle() {
	for i := 0; !w.m.IsQueueEmpty(); i++ {
		if i < 200 {
			runtime.Gosched()
		} else {
			time.Sleep(20 * time.Microsecond)
		}
	}
}

// stepWrite: worker parked before writeChunk -> run it, park after.
func (w *world) stepWrite() (chunks.ChunkDiskMapperRef, error) {
	w.permit <- struct{}{}
	ev := <-w.events
	w.wstate = 2
	if ev.err != nil {
		w.poisoned = true
	}
	return ev.ref, ev.err
}

// stepFin: worker parked after writeChunk -> finish processJob; pops the next job if there is one.
func (w *world) stepFin() {
	w.permit <- struct{}{}
	if w.queued > 0 {
		ev := <-w.events
		w.queued--
		w.wstate = 1
		w.held = ev.ref
		return
	}
	w.waitIdle()
	w.wstate = 0
}

func (w *world) drain() string {
	var parts []string
	if w.mode == "g" {
		for w.wstate != 0 {
			if w.wstate == 1 {
				ref, err := w.stepWrite()
				parts = append(parts, refStr(ref)+"="+errClass(err))
			}
			w.stepFin()
		}
	}
	if len(parts) == 0 {
		return "-"
	}
	return strings.Join(parts, ",")
}

// releaseAll lets a parked worker run to completion without recording (used before Close in cleanup).
func (w *world) releaseAll() {
	if w.mode == "g" && w.m != nil {
		w.drain()
	}
}

func (w *world) readStr(ref chunks.ChunkDiskMapperRef) string {
	var out string
	pan, v := h.Try(func() {
		chk, err := w.m.Chunk(ref)
		if err != nil {
			out = "E" + errClass(err)
			return
		}
		b := chk.Bytes()
		out = fmt.Sprintf("%d:%d:%016x", byte(chk.Encoding()), len(b), fnv(b))
	})
	if pan {
		_ = v
		return "Epanic"
	}
	return out
}

func (w *world) safeRead(ref chunks.ChunkDiskMapperRef) bool {
	seq, _ := ref.Unpack()
	present := false
	for _, s := range listSeqs(w.dir) {
		if s == seq {
			present = true
		}
	}
	if !present || w.startup[seq] {
		return true
	}
	return !w.poisoned && w.issued[ref]
}

type metaEntry struct {
	ref                 chunks.ChunkDiskMapperRef
	sref                uint64
	mint, maxt          int64
	ns                  uint16
	enc                 byte
	ooo                 bool
}

func iterate(m *chunks.ChunkDiskMapper) ([]metaEntry, error) {
	var out []metaEntry
	err := m.IterateAllChunks(func(seriesRef chunks.HeadSeriesRef, chunkRef chunks.ChunkDiskMapperRef, mint, maxt int64, numSamples uint16, encoding chunkenc.Encoding, isOOO bool) error {
		out = append(out, metaEntry{chunkRef, uint64(seriesRef), mint, maxt, numSamples, byte(encoding), isOOO})
		return nil
	})
	return out, err
}

// loadAll does what Head.Init does with the mapper: iterate, on corruption DeleteCorrupted and iterate again.
func loadAll(m *chunks.ChunkDiskMapper, read func(chunks.ChunkDiskMapperRef) string) string {
	status := "clean"
	ents, err := iterate(m)
	if err != nil {
		var cerr *chunks.CorruptionErr
		if !errors.As(err, &cerr) {
			return "itererr -"
		}
		k := cerr.FileIndex
		if derr := m.DeleteCorrupted(err); derr != nil {
			return "delerr -"
		}
		status = fmt.Sprintf("repaired:%d", k)
		ents, err = iterate(m)
		if err != nil {
			k2 := -1
			if errors.As(err, &cerr) {
				k2 = cerr.FileIndex
			}
			_ = m.Truncate(4294967295)
			return fmt.Sprintf("failed:%d -", k2)
		}
	}
	if len(ents) == 0 {
		return status + " -"
	}
	parts := make([]string, len(ents))
	for i, e := range ents {
		o := 0
		if e.ooo {
			o = 1
		}
		parts[i] = fmt.Sprintf("%s:%d:%d:%d:%d:%d:%d=%s", refStr(e.ref), e.sref, e.mint, e.maxt, e.ns, e.enc, o, read(e.ref))
	}
	return status + " " + strings.Join(parts, ",")
}

func boolTok(s string) (bool, bool) {
	switch s {
	case "0":
		return false, true
	case "1":
		return true, true
	}
	return false, false
}

func (w *world) exec(op string) string {
	t := strings.Fields(op)
	if len(t) == 0 {
		return "bad-op"
	}
	if t[0] == "pos" {
		if len(t) != 5 {
			return "bad-op"
		}
		seq, e1 := strconv.ParseUint(t[1], 10, 31)
		off, e2 := strconv.ParseUint(t[2], 10, 40)
		cut, ok := boolTok(t[3])
		n, e3 := strconv.Atoi(t[4])
		if e1 != nil || e2 != nil || e3 != nil || !ok || n < 0 || n > 1<<28 {
			return "bad-op"
		}
		rs, ro, c, ns, no, nc := chunks.VerifChunkPosNext(seq, off, cut, n)
		return fmt.Sprintf("%d:%d %d %d:%d:%d", rs, ro, b2i(c), ns, no, b2i(nc))
	}
	if t[0] == "open" {
		if len(t) != 3 || w.m != nil || w.dead {
			return "bad-op"
		}
		q, err := strconv.Atoi(t[1])
		if err != nil || q < 0 || q > 100000 || (t[2] != "s" && t[2] != "g" && t[2] != "f") || (q == 0) != (t[2] == "s") {
			return "bad-op"
		}
		w.q, w.mode = q, t[2]
		w.dir = h.TempDir("hcf")
		w.openMapper()
		return "ok"
	}
	if w.dead {
		return "dead"
	}
	if w.m == nil {
		return "bad-op"
	}
	switch t[0] {
	case "w":
		if len(t) != 7 {
			return "bad-op"
		}
		sref, e1 := strconv.ParseUint(t[1], 10, 64)
		mint, e2 := strconv.ParseInt(t[2], 10, 64)
		maxt, e3 := strconv.ParseInt(t[3], 10, 64)
		enc, e4 := strconv.ParseUint(t[4], 10, 8)
		ooo, ok := boolTok(t[5])
		data, ok2 := parseData(t[6])
		if e1 != nil || e2 != nil || e3 != nil || e4 != nil || !ok || !ok2 {
			return "bad-op"
		}
		if w.mode == "g" && w.queued >= w.q {
			return "full"
		}
		var chk chunkenc.Chunk
		if enc >= 1 && enc <= 6 {
			var err error
			chk, err = chunkenc.FromData(chunkenc.Encoding(enc), data)
			if err != nil {
				return "bad-op"
			}
		} else {
			chk = rawChunk{enc: byte(enc), b: data}
		}
		done := make(chan error, 1)
		ref := w.m.WriteChunk(chunks.HeadSeriesRef(sref), mint, maxt, chk, ooo, func(err error) { done <- err })
		w.issued[ref] = true
		w.refs = append(w.refs, ref)
		w.rlens[ref] = len(data)
		cb := "-"
		rd := "unsafe"
		switch w.mode {
		case "g":
			if w.wstate == 0 {
				ev := <-w.events
				w.wstate, w.held = 1, ev.ref
			} else {
				w.queued++
			}
			if !w.poisoned {
				rd = w.readStr(ref)
			}
		case "s":
			err := <-done
			cb = errClass(err)
			if err != nil {
				w.poisoned = true
			}
			if !w.poisoned {
				rd = w.readStr(ref)
			}
		case "f":
			// reads racing with the free-running worker until the callback has been delivered
			seen := map[string]bool{}
			var order []string
			add := func(s string) {
				if !seen[s] {
					seen[s] = true
					order = append(order, s)
				}
			}
			var err error
			fin := false
			for i := 0; !fin; i++ {
				select {
				case err = <-done:
					fin = true
				default:
				}
				// a chunk with an encoding unknown to the pool reads back differently from the queue/buffer
				// (the object itself) and from the file (Pool.Get fails): only the final read is reported
				if !w.poisoned && enc >= 1 && enc <= 6 {
					add(w.readStr(ref))
				}
				if i > 50 {
					runtime.Gosched()
				}
			}
			w.waitIdle()
			cb = errClass(err)
			if err != nil {
				w.poisoned = true
			}
			if !w.poisoned {
				add(w.readStr(ref))
				rd = strings.Join(order, "|")
			}
		}
		return fmt.Sprintf("ref %s rd=%s cb=%s", refStr(ref), rd, cb)
	case "cut":
		w.m.CutNewFile()
		return "ok"
	case "r":
		if len(t) != 2 {
			return "bad-op"
		}
		ref, ok := parseRef(t[1])
		if !ok {
			return "bad-op"
		}
		if !w.safeRead(ref) {
			return "unsafe"
		}
		return w.readStr(ref)
	case "wr":
		if w.mode != "g" || w.wstate != 1 {
			return "noop"
		}
		ref, err := w.stepWrite()
		return "wrote " + refStr(ref) + " " + errClass(err)
	case "fin":
		if w.mode != "g" || w.wstate != 2 {
			return "noop"
		}
		ref := w.held
		w.stepFin()
		return "fin " + refStr(ref)
	case "drain":
		return "drained " + w.drain()
	case "trunc":
		if len(t) != 2 {
			return "bad-op"
		}
		n, err := strconv.ParseUint(t[1], 10, 32)
		if err != nil {
			return "bad-op"
		}
		before := listSeqs(w.dir)
		terr := w.m.Truncate(uint32(n))
		after := listSeqs(w.dir)
		for s := range w.startup {
			gone := true
			for _, a := range after {
				if a == s {
					gone = false
				}
			}
			if gone {
				delete(w.startup, s)
			}
		}
		return fmt.Sprintf("%s %s %s", errClass(terr), seqList(before), seqList(after))
	case "files":
		var parts []string
		for _, s := range listSeqs(w.dir) {
			b, err := os.ReadFile(filepath.Join(w.dir, fmt.Sprintf("%06d", s)))
			if err != nil {
				return "files ioerr"
			}
			parts = append(parts, fmt.Sprintf("%d:%d:%016x", s, len(b), fnv(b)))
		}
		if len(parts) == 0 {
			return "files -"
		}
		return "files " + strings.Join(parts, ",")
	case "st":
		s := w.m.VerifState()
		return fmt.Sprintf("cur=%d:%d evtl=%d:%d:%d q=%d map=%d buf=%d wbuf=%d files=%d", s.CurSeq, s.CurOff, s.EvtlSeq, s.EvtlOff, b2i(s.EvtlCut), s.QueueLen, s.MapLen, s.BufLen, s.Buffered, s.MmapFiles)
	case "restart":
		d := w.drain()
		if err := w.m.Close(); err != nil {
			return "chunks closeerr - " + d
		}
		w.m = nil
		if !w.openMapper() {
			return "chunks openerr - " + d
		}
		ld := loadAll(w.m, w.readStr)
		w.refreshStartup()
		return "chunks " + ld + " " + d
	case "crash":
		if len(t) != 4 || (t[2] != "t" && t[2] != "x" && t[2] != "z") {
			return "bad-op"
		}
		seq, e1 := strconv.ParseUint(t[1], 10, 31)
		arg, e2 := strconv.ParseInt(t[3], 10, 64)
		if e1 != nil || e2 != nil || arg < 0 {
			return "bad-op"
		}
		d := w.drain()
		if err := w.m.Close(); err != nil {
			return "crash - closeerr - " + d
		}
		w.m = nil
		before := seqList(listSeqs(w.dir))
		if !damage(filepath.Join(w.dir, fmt.Sprintf("%06d", seq)), t[2], arg) {
			return "crash " + before + " ioerr - " + d
		}
		if !w.openMapper() {
			return "crash " + before + " openerr - " + d
		}
		ld := loadAll(w.m, w.readStr)
		w.refreshStartup()
		return "crash " + before + " " + ld + " " + d
	case "torn":
		if len(t) != 2 {
			return "bad-op"
		}
		cut, err := strconv.ParseInt(t[1], 10, 64)
		if err != nil || cut < 0 {
			return "bad-op"
		}
		return "torn " + w.torn(cut)
	}
	return "bad-op"
}

// refreshStartup: after the load (which may have deleted files) only the files still there are "found at start-up"
// (not preallocated, mapped with their own length); a number freed by the repair may be cut again by this mapper.
func (w *world) refreshStartup() {
	w.startup = map[int]bool{}
	for _, s := range listSeqs(w.dir) {
		w.startup[s] = true
	}
}

// damage: what a crash leaves of one file. t: torn at arg; x: the byte at arg inverted; z: zeros from arg on.
// A missing file or a position behind the end changes nothing.
func damage(path, kind string, arg int64) bool {
	b, err := os.ReadFile(path)
	if err != nil {
		return os.IsNotExist(err)
	}
	switch kind {
	case "t":
		if arg < int64(len(b)) {
			b = b[:arg]
		}
	case "x":
		if arg < int64(len(b)) {
			b[arg] ^= 0xff
		}
	case "z":
		for i := arg; i < int64(len(b)); i++ {
			b[i] = 0
		}
	}
	return os.WriteFile(path, b, 0o666) == nil
}

func b2i(b bool) int {
	if b {
		return 1
	}
	return 0
}

func (w *world) torn(cut int64) string {
	cp := h.TempDir("hcft")
	defer os.RemoveAll(cp)
	seqs := listSeqs(w.dir)
	for _, s := range seqs {
		name := fmt.Sprintf("%06d", s)
		b, err := os.ReadFile(filepath.Join(w.dir, name))
		if err != nil {
			return "ioerr -"
		}
		if s == seqs[len(seqs)-1] && cut < int64(len(b)) {
			b = b[:cut]
		}
		if err := os.WriteFile(filepath.Join(cp, name), b, 0o666); err != nil {
			return "ioerr -"
		}
	}
	m, err := chunks.NewChunkDiskMapper(nil, cp, chunkenc.NewPool(), writeBufferSize, 0)
	if err != nil {
		return "openerr -"
	}
	defer m.Close()
	return loadAll(m, func(ref chunks.ChunkDiskMapperRef) string {
		var out string
		pan, _ := h.Try(func() {
			chk, err := m.Chunk(ref)
			if err != nil {
				out = "E" + errClass(err)
				return
			}
			b := chk.Bytes()
			out = fmt.Sprintf("%d:%d:%016x", byte(chk.Encoding()), len(b), fnv(b))
		})
		if pan {
			return "Epanic"
		}
		return out
	})
}

func newWorld(c *h.Ctx) *world {
	return &world{c: c, rlens: map[chunks.ChunkDiskMapperRef]int{}}
}

func runCase(c *h.Ctx, ops []string) {
	w := newWorld(c)
	defer w.cleanup()
	for _, op := range ops {
		var out string
		pan, v := h.Try(func() { out = w.exec(op) })
		if pan {
			out = fmt.Sprintf("panic %s", strings.ReplaceAll(strings.ReplaceAll(fmt.Sprint(v), "\n", " "), "\t", " "))
			if len(out) > 120 {
				out = out[:120]
			}
		}
		c.Op(op, out)
	}
}

// ---------------------------------------------------------------- generator

func xorChunkHex(r *h.Rng) string {
	ch := chunkenc.NewXORChunk()
	app, _ := ch.Appender()
	n := 1 + r.Intn(12)
	if r.Chance(15) {
		n = 1 + r.Intn(120)
	}
	t := r.Range(-1000, 1<<40)
	v := float64(r.Intn(1000))
	for i := 0; i < n; i++ {
		app.Append(0, t, v)
		t += r.Range(1, 30000)
		if r.Chance(60) {
			v += float64(r.Intn(7)) * 0.5
		} else {
			v = r.Float() * 1e6
		}
	}
	return "x" + h.Hex(ch.Bytes())
}

func genChunk(c *h.Ctx, r *h.Rng, big bool) string {
	sref := uint64(1 + r.Intn(50))
	switch r.Intn(60) {
	case 0:
		sref = 1<<64 - 1
	case 1:
		sref = 1 << 32
	case 2:
		sref = 0
	}
	mint := r.Range(-5, 1<<41)
	maxt := mint + r.Range(0, 1<<20)
	switch r.Intn(40) {
	case 0:
		mint, maxt = h.PickI64(r, h.I64Edges), h.PickI64(r, h.I64Edges)
	case 1:
		mint, maxt = 0, 0
	}
	if sref == 0 && r.Chance(30) {
		mint, maxt = 0, 0
	}
	enc := 1
	if r.Chance(25) {
		enc = 1 + r.Intn(6)
	}
	if r.Intn(100) == 0 {
		enc = h.Pick(r, []int{0, 7, 127, 128, 129, 134, 255})
		c.Count("w:odd-enc")
	}
	ooo := b2i(r.Chance(25))
	var data string
	k := r.Intn(100)
	if k >= 45 && k < 50 && r.Chance(80) {
		k = 50
	}
	switch {
	case k < 45:
		data = xorChunkHex(r)
		c.Count("w:xor")
	case k < 50:
		n := r.Intn(6)
		if n == 0 {
			data = "-"
		} else {
			data = fmt.Sprintf("g%d:%d", r.Intn(1<<20), n)
		}
		c.Count("w:tiny")
	case k < 75:
		data = fmt.Sprintf("g%d:%d", r.Intn(1<<20), h.Pick(r, []int{100, 126, 127, 128, 129, 300, 1000, 2000, 3000})+r.Intn(3))
		c.Count("w:medium")
	case k < 92 || !big:
		data = fmt.Sprintf("g%d:%d", r.Intn(1<<20), 6000+r.Intn(26000))
		c.Count("w:large")
	default:
		// around the write buffer size (64 KiB): len + 34 >= bufsize takes the "bigger than the buffer" path
		data = fmt.Sprintf("g%d:%d", r.Intn(1<<20), h.Pick(r, []int{16383, 16384, 16385, 65500, 65501, 65502, 65503, 65536, 70000, 131072, 140000}))
		c.Count("w:huge")
	}
	return fmt.Sprintf("w %d %d %d %d %d %s", sref, mint, maxt, enc, ooo, data)
}

func (w *world) curSeqGuess() int {
	s := listSeqs(w.dir)
	if len(s) == 0 {
		return 0
	}
	return s[len(s)-1]
}

func (w *world) pickRef(r *h.Rng) (chunks.ChunkDiskMapperRef, bool) {
	if len(w.refs) == 0 {
		return 0, false
	}
	if r.Chance(50) {
		k := len(w.refs) - 1 - r.Intn(min(len(w.refs), 4))
		return w.refs[k], true
	}
	return w.refs[r.Intn(len(w.refs))], true
}

func (w *world) pickCut(r *h.Rng) int64 {
	seqs := listSeqs(w.dir)
	if len(seqs) == 0 {
		return 0
	}
	last := seqs[len(seqs)-1]
	var offs []int64
	for _, ref := range w.refs {
		s, o := ref.Unpack()
		if s == last {
			offs = append(offs, int64(o))
			n := int64(w.rlens[ref])
			vs := int64(1)
			for x := n; x >= 128; x >>= 7 {
				vs++
			}
			offs = append(offs, int64(o)+25+vs+n+4)
		}
	}
	switch k := r.Intn(10); {
	case k == 0:
		return int64(r.Intn(12))
	case k == 1:
		return h.PickI64(r, []int64{131071, 131072, 131073, 131040, 131038, 131039})
	case k == 2 || len(offs) == 0:
		return int64(r.Intn(140000))
	default:
		b := offs[r.Intn(len(offs))]
		d := h.PickI64(r, []int64{-40, -35, -34, -33, -5, -4, -3, -1, 0, 0, 1, 2, 7, 8, 9, 23, 24, 25, 26, 27, 29, 30, 33, 34, 35, 36, 60})
		if b+d < 0 {
			return 0
		}
		return b + d
	}
}

func genCase(c *h.Ctx, id int) {
	r := c.Rng
	w := newWorld(c)
	defer w.cleanup()
	c.Case(fmt.Sprintf("g%d", id))
	do := func(op string) string {
		var out string
		pan, v := h.Try(func() { out = w.exec(op) })
		if pan {
			out = fmt.Sprintf("panic %s", strings.ReplaceAll(strings.ReplaceAll(fmt.Sprint(v), "\n", " "), "\t", " "))
			if len(out) > 120 {
				out = out[:120]
			}
		}
		c.Op(op, out)
		return out
	}
	var key []string
	mode, q := "s", 0
	switch k := r.Intn(10); {
	case k < 3:
	case k < 8:
		mode, q = "g", h.Pick(r, []int{1, 1, 2, 3, 8})
	default:
		mode, q = "f", h.Pick(r, []int{1, 4, 1000})
	}
	c.Count("mode:" + mode)
	do(fmt.Sprintf("open %d %s", q, mode))
	nops := 8 + r.Intn(30)
	if c.Tier == "thorough" {
		nops += r.Intn(40)
	}
	big := r.Chance(35)
	scenario := r.Intn(12) // 0: restart + pending cut job + truncate-all
	torns := 0
	for i := 0; i < nops && !w.dead; i++ {
		k := r.Intn(100)
		var op string
		switch {
		case scenario == 0 && i == nops/2 && mode == "g":
			do("restart")
			do(genChunk(c, r, false))
			if r.Chance(50) {
				do("r " + refStr(w.refs[len(w.refs)-1]))
			}
			do(fmt.Sprintf("trunc %d", h.Pick(r, []int{w.curSeqGuess() + 1, w.curSeqGuess() + 2, 4294967295, w.curSeqGuess()})))
			c.Count("scenario:restart-pending-trunc")
			key = append(key, "S")
			continue
		case k < 42:
			if mode == "g" && w.queued >= w.q && r.Chance(85) {
				op = h.Pick(r, []string{"wr", "fin", "fin", "drain"})
				if w.wstate == 1 {
					op = "wr"
				}
			} else {
				op = genChunk(c, r, big)
			}
		case k < 46:
			op = "cut"
		case k < 60:
			if ref, ok := w.pickRef(r); ok {
				op = "r " + refStr(ref)
			} else {
				op = "st"
			}
		case k < 70:
			op = "wr"
		case k < 79:
			op = "fin"
		case k < 82:
			op = "drain"
		case k < 86:
			cs := w.curSeqGuess()
			op = fmt.Sprintf("trunc %d", h.Pick(r, []int{0, 1, cs - 1, cs, cs, cs + 1, cs + 5, 4294967295}))
			if strings.Contains(op, "-") {
				op = "trunc 0"
			}
		case k < 89:
			op = "files"
		case k < 93:
			op = "st"
		case k < 97:
			if torns < 6 {
				op = fmt.Sprintf("torn %d", w.pickCut(r))
				torns++
			} else {
				op = "st"
			}
		default:
			op = "restart"
		}
		out := do(op)
		c.Count("op:" + strings.Fields(op)[0])
		if strings.HasPrefix(out, "full") {
			c.Count("w:full")
		}
		if strings.Contains(out, "repaired") {
			c.Count("torn:repaired")
		}
		if strings.Contains(out, "openerr") {
			c.Count("torn:openerr")
		}
		if strings.Contains(out, "expect") {
			c.Count("cb:expect")
		}
		key = append(key, op)
	}
	if !w.dead {
		// final: a few torn restarts of what is on disk now, then a clean restart
		for j := 0; j < 2+r.Intn(3); j++ {
			do(fmt.Sprintf("torn %d", w.pickCut(r)))
		}
		do("files")
		do("restart")
		do("st")
	}
	c.NonTrivial(strings.Join(key, ";"))
}

// ---------------------------------------------------------------- crash histories

// plainChunk: a chunk the head could write (inside the judged statement), small enough to keep cases cheap.
func plainChunk(c *h.Ctx, r *h.Rng) string {
	sref := uint64(1 + r.Intn(50))
	mint := r.Range(1, 1<<41)
	maxt := mint + r.Range(0, 1<<20)
	enc := 1
	if r.Chance(20) {
		enc = 1 + r.Intn(6)
	}
	var data string
	switch k := r.Intn(10); {
	case k < 5:
		data = xorChunkHex(r)
	case k < 9:
		data = fmt.Sprintf("g%d:%d", r.Intn(1<<20), h.Pick(r, []int{4, 5, 100, 127, 128, 129, 1000, 3000})+r.Intn(3))
	default:
		data = fmt.Sprintf("g%d:%d", r.Intn(1<<20), 6000+r.Intn(20000))
	}
	c.Count("w:plain")
	return fmt.Sprintf("w %d %d %d %d %d %s", sref, mint, maxt, enc, b2i(r.Chance(25)), data)
}

// recBounds: start and end offset of every record this run wrote into file seq (from the refs handed out).
func (w *world) recBounds(seq int) (starts, ends []int64) {
	for _, ref := range w.refs {
		s, o := ref.Unpack()
		if s != seq {
			continue
		}
		n := int64(w.rlens[ref])
		vs := int64(1)
		for x := n; x >= 128; x >>= 7 {
			vs++
		}
		starts = append(starts, int64(o))
		ends = append(ends, int64(o)+25+vs+n+4)
	}
	return starts, ends
}

// pickDamage: kind and position of the damage in file seq. class: 0 header, 1 inside a record (always detected),
// 2 CRC field, 3 record boundary, 4 padding / preallocation end, 5 anywhere.
func (w *world) pickDamage(r *h.Rng, seq, class int) (string, int64) {
	starts, ends := w.recBounds(seq)
	if len(starts) == 0 && class >= 1 && class <= 3 {
		class = 5
	}
	kind := h.Pick(r, []string{"t", "t", "t", "x", "z"})
	i := 0
	if len(starts) > 0 {
		i = r.Intn(len(starts))
		if r.Chance(50) {
			i = len(starts) - 1
		}
	}
	switch class {
	case 0:
		return kind, int64(r.Intn(12))
	case 1:
		// strictly inside record i, behind its first 8 bytes: a torn, inverted or zeroed byte there is always noticed
		lo, hi := starts[i]+8, ends[i]-1
		pos := lo + r.Range(0, hi-lo)
		switch r.Intn(5) {
		case 0:
			pos = starts[i] + h.PickI64(r, []int64{8, 9, 16, 23, 24, 25, 26, 27, 33, 34, 35})
		case 1:
			pos = (starts[i] + ends[i]) / 2
		}
		if pos > hi {
			pos = hi
		}
		if kind == "z" {
			kind = "t"
		}
		return kind, pos
	case 2:
		return kind, ends[i] - 1 - int64(r.Intn(4))
	case 3:
		if r.Chance(50) {
			return kind, starts[i] + r.Range(0, 1)
		}
		return kind, ends[i] + r.Range(0, 1)
	case 4:
		last := int64(8)
		if len(ends) > 0 {
			last = ends[len(ends)-1]
		}
		return kind, h.PickI64(r, []int64{last + 1, last + 33, last + 34, last + 35, last + 1000, 131071, 131072, 131073})
	}
	return kind, int64(r.Intn(132000))
}

// genCrashCase: write chunks into several files, truncate away 0..all-but-one of them, crash with damage in the first
// retained / a middle / the newest file, repair the way the head does, keep writing across a file cut, read every
// reference back, restart and iterate. shape 0: only the newest file is retained and torn inside a record; shape 1:
// several files retained, the first one damaged inside a record; otherwise random.
func genCrashCase(c *h.Ctx, id, shape int) {
	r := c.Rng
	w := newWorld(c)
	defer w.cleanup()
	c.Case(fmt.Sprintf("k%d", id))
	var key []string
	do := func(op string) string {
		var out string
		pan, v := h.Try(func() { out = w.exec(op) })
		if pan {
			out = fmt.Sprintf("panic %s", strings.ReplaceAll(strings.ReplaceAll(fmt.Sprint(v), "\n", " "), "\t", " "))
			if len(out) > 120 {
				out = out[:120]
			}
		}
		c.Op(op, out)
		key = append(key, op)
		return out
	}
	mode, q := "s", 0
	switch k := r.Intn(10); {
	case k < 5:
	case k < 8:
		mode, q = "g", h.Pick(r, []int{1, 2, 3, 8})
	default:
		mode, q = "f", h.Pick(r, []int{1, 4, 1000})
	}
	c.Count("crashmode:" + mode)
	do(fmt.Sprintf("open %d %s", q, mode))
	write := func() {
		if mode == "g" && w.queued >= w.q {
			do("drain")
		}
		do(plainChunk(c, r))
		if mode == "g" && r.Chance(40) {
			do(h.Pick(r, []string{"wr", "fin", "drain"}))
		}
	}
	rounds := 1
	if r.Chance(30) {
		rounds = 2
	}
	for round := 0; round < rounds && !w.dead; round++ {
		// files
		nf := 2 + r.Intn(3)
		if shape >= 2 && r.Chance(15) {
			nf = 1
		}
		for f := 0; f < nf; f++ {
			if f > 0 || r.Chance(50) {
				do("cut")
			}
			for j := 0; j < 1+r.Intn(3); j++ {
				write()
			}
		}
		do("drain")
		seqs := listSeqs(w.dir)
		if len(seqs) == 0 {
			break
		}
		newest := seqs[len(seqs)-1]
		// truncation: drop none .. all but the newest
		drop := r.Intn(len(seqs))
		switch {
		case shape == 0 || (shape >= 2 && r.Chance(40)):
			drop = len(seqs) - 1
		case shape == 1:
			drop = 0
			if len(seqs) > 2 {
				drop = 1 + r.Intn(len(seqs)-2)
			}
			if seqs[0] == 1 && drop == 0 && len(seqs) > 1 {
				drop = 1
			}
		}
		if drop > 0 {
			do(fmt.Sprintf("trunc %d", seqs[drop-1]+1))
			c.Count(fmt.Sprintf("crash:dropped-%d-of-%d", drop, len(seqs)))
		} else if r.Chance(30) {
			do(fmt.Sprintf("trunc %d", h.Pick(r, []int{0, seqs[0]})))
		}
		if shape >= 2 && r.Chance(25) {
			// the truncation asked for a cut: one more chunk opens file newest+1
			write()
			do("drain")
		}
		if r.Chance(30) {
			do("files")
		}
		seqs = listSeqs(w.dir)
		if len(seqs) == 0 {
			break
		}
		newest = seqs[len(seqs)-1]
		// which file, what damage
		target, class := newest, 1
		switch {
		case shape == 0:
		case shape == 1:
			target = seqs[0]
		default:
			switch k := r.Intn(10); {
			case k < 4:
				target = seqs[0]
			case k < 6:
				target = seqs[r.Intn(len(seqs))]
			}
			class = h.Pick(r, []int{0, 1, 1, 1, 2, 2, 3, 3, 4, 5})
		}
		kind, pos := w.pickDamage(r, target, class)
		where := "middle"
		switch {
		case len(seqs) == 1:
			where = "only"
		case target == seqs[0]:
			where = "first"
		case target == newest:
			where = "newest"
		}
		out := do(fmt.Sprintf("crash %d %s %d", target, kind, pos))
		c.Count("crash:" + where)
		c.Count(fmt.Sprintf("crash:class-%d-%s", class, kind))
		switch {
		case strings.Contains(out, " repaired:"):
			c.Count("crash:repaired")
			if len(listSeqs(w.dir)) == 0 && seqs[0] > 1 {
				c.Count("crash:repair-emptied-dir-first-file>1")
			}
		case strings.Contains(out, " openerr "):
			c.Count("crash:openerr")
		case strings.Contains(out, " clean "):
			c.Count("crash:clean")
		}
		if w.dead {
			break
		}
		do("st")
		// keep writing, across a file cut
		from := len(w.refs)
		nw := 2 + r.Intn(3)
		cutAt := 1 + r.Intn(nw-1)
		for j := 0; j < nw; j++ {
			if j == cutAt {
				do("cut")
			}
			write()
		}
		if r.Chance(70) {
			do("drain")
		}
		for _, ref := range w.refs[from:] {
			do("r " + refStr(ref))
		}
		if r.Chance(40) {
			do("files")
		}
		do("st")
		do("restart")
		for _, ref := range w.refs[from:] {
			if r.Chance(60) {
				do("r " + refStr(ref))
			}
		}
		if r.Chance(50) {
			write()
			do("drain")
		}
	}
	if !w.dead {
		do("files")
		do("restart")
		do("st")
	}
	c.NonTrivial(strings.Join(key, ";"))
}

func genPosCase(c *h.Ctx, id int) {
	r := c.Rng
	c.Case(fmt.Sprintf("p%d", id))
	w := newWorld(c)
	const max = chunks.MaxHeadChunkFileSize
	for i := 0; i < 12; i++ {
		n := h.Pick(r, []int{0, 1, 100, 127, 128, 16383, 16384, 1 << 21, 1<<21 + 1})
		rl := 25 + n + 4 + 1
		for x := n; x >= 128; x >>= 7 {
			rl++
		}
		off := int64(max-rl) + r.Range(-2, 2)
		switch r.Intn(6) {
		case 0:
			off = 0
		case 1:
			off = 8
		case 2:
			off = r.Range(8, max)
		}
		if off < 0 {
			off = 0
		}
		op := fmt.Sprintf("pos %d %d %d %d", r.Intn(5), off, b2i(r.Chance(15)), n)
		var out string
		h.Try(func() { out = w.exec(op) })
		c.Op(op, out)
		c.NonTrivial(op)
	}
	c.Count("stream:pos")
}

func main() {
	c := h.Init()
	defer c.Finish()
	if c.Replay != "" {
		for _, cs := range c.ReplayCases() {
			c.Case(strings.TrimPrefix(cs[0], "case "))
			runCase(c, cs[1:])
		}
		return
	}
	crashCases := 0
	for i := 0; i < c.N; i++ {
		switch {
		case i%10 == 9:
			genPosCase(c, i)
		case i%5 == 2:
			// 8 of 40: crash histories (Truncate, damage in the live directory, repair, further writes)
			genCrashCase(c, i, crashCases%4)
			crashCases++
		default:
			genCase(c, i)
		}
	}
}
