// Suite fanout (C54): storage.NewFanout over scripted fake storages.
//
// The real code under test: storage/fanout.go (fanout.Querier, fanoutAppender, fanoutAppenderV2),
// storage/secondary.go (secondaryQuerier), storage/merge.go (NewMergeQuerier, mergeGenericQuerier,
// genericMergeSeriesSet, ChainedSeriesMerge), storage/lazy.go.
//
// Op grammar (one case = one fanout over 1 primary (index 0) + 0..3 secondaries (1..3)):
//
//	st <idx> <faults|-> <series|->   declare storage idx; series = lid:t.v,t.v;lid:…  (lid one digit, sorted)
//	    faults (comma separated): cr | s<j> | n<j>.<k> | lv | ln | a<k> | co | rb
//	      cr      Querier() fails                     s<j>    the j-th Select (0-based) returns an error-only set
//	      n<j>.<k> the k-th Next (1-based) of the set of the j-th Select fails (Err set, stays failed)
//	      lv/ln   LabelValues/LabelNames fail          a<k>    the k-th append call of every appender fails
//	      co/rb   Commit / Rollback fail
//	querier                          -> ok | err=<i> closed=<idx,…|->
//	select <order> <mask>            order = arrival order of the concurrent Selects at the merge querier
//	                                 (digits, permutation of the storages); mask = digits of selected lids | *
//	drain <j>                        iterate the j-th selected set to exhaustion
//	                                 -> series=<lid:t.v,…;…|-> err=<i|none> warn=<i,…|->
//	lv | ln                          -> vals=<a,b|-> warn=<…> | err=<i>
//	qclose                           -> closed=<c0,c1,…> (Close calls per storage querier)
//	appender | appender2             new fanout Appender / AppenderV2
//	app <kind> <ref> <lid> <t> <v>   kind f|h|e|m|z|y (V1 Append/AppendHistogram/AppendExemplar/UpdateMetadata/
//	                                 AppendSTZeroSample/AppendHistogramSTZeroSample) or 2 (V2 Append)
//	                                 -> ref=<r> err=<i|none> saw=<r0|-,r1|-,…>
//	commit | rollback                -> err=<i|none> calls=<c|r|-,…> data=<k.lid.t.v,…|-  per storage joined by '|'>
package main

import (
	"context"
	"errors"
	"fmt"
	"runtime"
	"sort"
	"strconv"
	"strings"
	"sync/atomic"
	"time"

	"github.com/prometheus/common/promslog"

	"github.com/prometheus/prometheus/model/exemplar"
	"github.com/prometheus/prometheus/model/histogram"
	"github.com/prometheus/prometheus/model/labels"
	"github.com/prometheus/prometheus/model/metadata"
	"github.com/prometheus/prometheus/storage"
	"github.com/prometheus/prometheus/tsdb/chunkenc"
	"github.com/prometheus/prometheus/tsdb/chunks"
	"github.com/prometheus/prometheus/util/annotations"

	"verif/harness/h"
)

// ---------- scripted storages ----------

type fSample struct {
	t int64
	v float64
}

func (s fSample) T() int64                      { return s.t }
func (fSample) ST() int64                       { return 0 }
func (s fSample) F() float64                    { return s.v }
func (fSample) H() *histogram.Histogram         { return nil }
func (fSample) FH() *histogram.FloatHistogram   { return nil }
func (fSample) Type() chunkenc.ValueType        { return chunkenc.ValFloat }
func (s fSample) Copy() chunks.Sample           { return s }

type series struct {
	lid     int
	samples [][2]int64
}

type faults struct {
	create   bool
	sel      map[int]bool
	next     map[int]int
	lv, ln   bool
	app      int
	commit   bool
	rollback bool
}

var fakeErrs = []error{errors.New("fake-error-0"), errors.New("fake-error-1"), errors.New("fake-error-2"), errors.New("fake-error-3"), errors.New("fake-error-4")}

func errID(err error) string {
	if err == nil {
		return "none"
	}
	for i, e := range fakeErrs {
		if errors.Is(err, e) {
			return strconv.Itoa(i)
		}
	}
	return "other"
}

func warnIDs(ws annotations.Annotations) string {
	var ids []string
	for _, w := range ws {
		ids = append(ids, errID(w))
	}
	sort.Strings(ids)
	if len(ids) == 0 {
		return "-"
	}
	return strings.Join(ids, ",")
}

// gate forces the arrival order of the concurrent Selects issued by mergeGenericQuerier.Select: the fake
// Select of the storage at position p returns only after p of the Select goroutines have exited, i.e.
// after their (unbuffered) sends have been received.
type gate struct {
	active  bool
	total   int // goroutines alive when everything is spawned: base + n + 1
	pos     map[int]int
	spawned atomic.Bool
}

var gatingBroken atomic.Bool

func (g *gate) wait(idx int) {
	if g == nil || !g.active || gatingBroken.Load() {
		return
	}
	deadline := time.Now().Add(3 * time.Second)
	spin := 0
	for !g.spawned.Load() {
		if runtime.NumGoroutine() >= g.total {
			g.spawned.Store(true)
			break
		}
		runtime.Gosched()
		if spin++; spin%1024 == 0 && time.Now().After(deadline) {
			gatingBroken.Store(true)
			return
		}
	}
	p := g.pos[idx]
	for runtime.NumGoroutine() > g.total-p {
		runtime.Gosched()
		if spin++; spin%1024 == 0 && (gatingBroken.Load() || time.Now().After(deadline)) {
			gatingBroken.Store(true)
			return
		}
	}
}

type fakeStorage struct {
	storage.Storage
	idx       int
	f         faults
	data      []series
	env       *env
	committed []string
}

type env struct {
	g          *gate
	mask       string
	closes     []int
	appSaw     []string
	calls      []string
	baseGor    int
}

type fakeQuerier struct {
	st   *fakeStorage
	nsel int
}

func (s *fakeStorage) Querier(_, _ int64) (storage.Querier, error) {
	if s.f.create {
		return nil, fakeErrs[s.idx]
	}
	return &fakeQuerier{st: s}, nil
}

func (s *fakeStorage) StartTime() (int64, error) { return 0, nil }
func (s *fakeStorage) Close() error              { return nil }

func lset(lid int) labels.Labels {
	return labels.FromStrings("l", strconv.Itoa(lid), "x"+strconv.Itoa(lid%3), "1")
}

type fakeSet struct {
	st     *fakeStorage
	ser    []series
	cnt    int
	selErr bool
	failAt int
	err    error
	cur    storage.Series
}

func (q *fakeQuerier) Select(_ context.Context, _ bool, _ *storage.SelectHints, ms ...*labels.Matcher) storage.SeriesSet {
	j := q.nsel
	q.nsel++
	set := &fakeSet{st: q.st, selErr: q.st.f.sel[j], failAt: q.st.f.next[j]}
	for _, s := range q.st.data {
		ok := true
		ls := lset(s.lid)
		for _, m := range ms {
			if !m.Matches(ls.Get(m.Name)) {
				ok = false
			}
		}
		if ok {
			set.ser = append(set.ser, s)
		}
	}
	q.st.env.g.wait(q.st.idx)
	return set
}

func (s *fakeSet) Next() bool {
	if s.err != nil {
		return false
	}
	s.cnt++
	if s.selErr || s.cnt == s.failAt {
		s.err = fakeErrs[s.st.idx]
		return false
	}
	if len(s.ser) == 0 {
		s.cur = nil
		return false
	}
	x := s.ser[0]
	s.ser = s.ser[1:]
	smp := make([]chunks.Sample, 0, len(x.samples))
	for _, p := range x.samples {
		smp = append(smp, fSample{t: p[0], v: float64(p[1])})
	}
	s.cur = storage.NewListSeries(lset(x.lid), smp)
	return true
}

func (s *fakeSet) At() storage.Series                  { return s.cur }
func (s *fakeSet) Err() error                          { return s.err }
func (*fakeSet) Warnings() annotations.Annotations     { return nil }

func (q *fakeQuerier) LabelValues(_ context.Context, name string, _ *storage.LabelHints, _ ...*labels.Matcher) ([]string, annotations.Annotations, error) {
	if q.st.f.lv {
		return nil, nil, fakeErrs[q.st.idx]
	}
	set := map[string]struct{}{}
	for _, s := range q.st.data {
		if v := lset(s.lid).Get(name); v != "" {
			set[v] = struct{}{}
		}
	}
	return sortedKeys(set), nil, nil
}

func (q *fakeQuerier) LabelNames(_ context.Context, _ *storage.LabelHints, _ ...*labels.Matcher) ([]string, annotations.Annotations, error) {
	if q.st.f.ln {
		return nil, nil, fakeErrs[q.st.idx]
	}
	set := map[string]struct{}{}
	for _, s := range q.st.data {
		lset(s.lid).Range(func(l labels.Label) { set[l.Name] = struct{}{} })
	}
	return sortedKeys(set), nil, nil
}

func sortedKeys(m map[string]struct{}) []string {
	out := make([]string, 0, len(m))
	for k := range m {
		out = append(out, k)
	}
	sort.Strings(out)
	return out
}

func (q *fakeQuerier) Close() error {
	q.st.env.closes[q.st.idx]++
	return nil
}

// ---------- scripted appenders ----------

type fakeAppender struct {
	storage.Appender // nil: unused methods panic (captured)
	st               *fakeStorage
	n                int
	pending          []string
}

func (a *fakeAppender) rec(kind string, ref storage.SeriesRef, l labels.Labels, t, v int64) (storage.SeriesRef, error) {
	a.n++
	a.st.env.appSaw[a.st.idx] = strconv.FormatUint(uint64(ref), 10)
	if a.n == a.st.f.app {
		return storage.SeriesRef(900 + a.st.idx), fakeErrs[a.st.idx]
	}
	lid := l.Get("l")
	a.pending = append(a.pending, fmt.Sprintf("%s.%s.%d.%d", kind, lid, t, v))
	if ref != 0 {
		return ref, nil
	}
	n, _ := strconv.Atoi(lid)
	return storage.SeriesRef(100*(a.st.idx+1) + n), nil
}

func (a *fakeAppender) Append(ref storage.SeriesRef, l labels.Labels, t int64, v float64) (storage.SeriesRef, error) {
	return a.rec("f", ref, l, t, int64(v))
}

func (a *fakeAppender) AppendHistogram(ref storage.SeriesRef, l labels.Labels, t int64, hh *histogram.Histogram, _ *histogram.FloatHistogram) (storage.SeriesRef, error) {
	v := int64(-1)
	if hh != nil {
		v = int64(hh.Count)
	}
	return a.rec("h", ref, l, t, v)
}

func (a *fakeAppender) AppendExemplar(ref storage.SeriesRef, l labels.Labels, e exemplar.Exemplar) (storage.SeriesRef, error) {
	return a.rec("e", ref, l, e.Ts, int64(e.Value))
}

func (a *fakeAppender) UpdateMetadata(ref storage.SeriesRef, l labels.Labels, m metadata.Metadata) (storage.SeriesRef, error) {
	t, _ := strconv.ParseInt(m.Help, 10, 64)
	v, _ := strconv.ParseInt(m.Unit, 10, 64)
	return a.rec("m", ref, l, t, v)
}

func (a *fakeAppender) AppendSTZeroSample(ref storage.SeriesRef, l labels.Labels, t, st int64) (storage.SeriesRef, error) {
	return a.rec("z", ref, l, t, st)
}

func (a *fakeAppender) AppendHistogramSTZeroSample(ref storage.SeriesRef, l labels.Labels, t, st int64, _ *histogram.Histogram, _ *histogram.FloatHistogram) (storage.SeriesRef, error) {
	return a.rec("y", ref, l, t, st)
}

func (*fakeAppender) SetOptions(*storage.AppendOptions) {}

func (a *fakeAppender) Commit() error {
	a.st.env.calls[a.st.idx] = "c"
	if a.st.f.commit {
		a.pending = nil
		return fakeErrs[a.st.idx]
	}
	a.st.committed = append(a.st.committed, a.pending...)
	a.pending = nil
	return nil
}

func (a *fakeAppender) Rollback() error {
	a.st.env.calls[a.st.idx] = "r"
	a.pending = nil
	if a.st.f.rollback {
		return fakeErrs[a.st.idx]
	}
	return nil
}

type fakeAppenderV2 struct{ *fakeAppender }

func (a fakeAppenderV2) Append(ref storage.SeriesRef, l labels.Labels, _, t int64, v float64, _ *histogram.Histogram, _ *histogram.FloatHistogram, _ storage.AOptions) (storage.SeriesRef, error) {
	return a.rec("2", ref, l, t, int64(v))
}

func (s *fakeStorage) Appender(context.Context) storage.Appender {
	return &fakeAppender{st: s}
}

func (s *fakeStorage) AppenderV2(context.Context) storage.AppenderV2 {
	return fakeAppenderV2{&fakeAppender{st: s}}
}

// ---------- case runner ----------

func parseFaults(s string) (faults, bool) {
	f := faults{sel: map[int]bool{}, next: map[int]int{}}
	if s == "-" {
		return f, true
	}
	for _, tok := range strings.Split(s, ",") {
		switch {
		case tok == "cr":
			f.create = true
		case tok == "lv":
			f.lv = true
		case tok == "ln":
			f.ln = true
		case tok == "co":
			f.commit = true
		case tok == "rb":
			f.rollback = true
		case strings.HasPrefix(tok, "s"):
			j, err := strconv.Atoi(tok[1:])
			if err != nil {
				return f, false
			}
			f.sel[j] = true
		case strings.HasPrefix(tok, "n"):
			p := strings.Split(tok[1:], ".")
			if len(p) != 2 {
				return f, false
			}
			j, e1 := strconv.Atoi(p[0])
			k, e2 := strconv.Atoi(p[1])
			if e1 != nil || e2 != nil || k < 1 {
				return f, false
			}
			if _, dup := f.next[j]; !dup {
				f.next[j] = k
			}
		case strings.HasPrefix(tok, "a"):
			k, err := strconv.Atoi(tok[1:])
			if err != nil || k < 1 {
				return f, false
			}
			if f.app == 0 {
				f.app = k
			}
		default:
			return f, false
		}
	}
	return f, true
}

func parseSeries(s string) ([]series, bool) {
	if s == "-" {
		return nil, true
	}
	var out []series
	for _, part := range strings.Split(s, ";") {
		kv := strings.SplitN(part, ":", 2)
		if len(kv) != 2 {
			return nil, false
		}
		lid, err := strconv.Atoi(kv[0])
		if err != nil {
			return nil, false
		}
		ser := series{lid: lid}
		if kv[1] != "" {
			for _, sm := range strings.Split(kv[1], ",") {
				tv := strings.SplitN(sm, ".", 2)
				if len(tv) != 2 {
					return nil, false
				}
				t, e1 := strconv.ParseInt(tv[0], 10, 64)
				v, e2 := strconv.ParseInt(tv[1], 10, 64)
				if e1 != nil || e2 != nil {
					return nil, false
				}
				ser.samples = append(ser.samples, [2]int64{t, v})
			}
		}
		out = append(out, ser)
	}
	return out, true
}

func joinOr(xs []string, sep string) string {
	if len(xs) == 0 {
		return "-"
	}
	return strings.Join(xs, sep)
}

func waitGoroutines(base int) {
	deadline := time.Now().Add(2 * time.Second)
	for i := 0; runtime.NumGoroutine() > base; i++ {
		runtime.Gosched()
		if i%1024 == 1023 && time.Now().After(deadline) {
			return
		}
	}
}

func drain(ss storage.SeriesSet) string {
	var parts []string
	var err error
	var ws annotations.Annotations
	if p, v := h.Try(func() {
		for ss.Next() {
			s := ss.At()
			var smp []string
			it := s.Iterator(nil)
			for it.Next() != chunkenc.ValNone {
				t, v := it.At()
				smp = append(smp, fmt.Sprintf("%d.%d", t, int64(v)))
			}
			if it.Err() != nil {
				smp = append(smp, "itererr")
			}
			parts = append(parts, s.Labels().Get("l")+":"+strings.Join(smp, ","))
		}
		err = ss.Err()
		ws = ss.Warnings()
	}); p {
		return "panic " + h.HexS(fmt.Sprint(v))
	}
	return fmt.Sprintf("series=%s err=%s warn=%s", joinOr(parts, ";"), errID(err), warnIDs(ws))
}

func runCase(c *h.Ctx, ops []string, base int) {
	var stors []*fakeStorage
	e := &env{}
	var fan storage.Storage
	var q storage.Querier
	var sets []storage.SeriesSet
	drained := false
	var app storage.Appender
	var app2 storage.AppenderV2
	mk := func() {
		if fan == nil && len(stors) > 0 {
			secs := make([]storage.Storage, 0, len(stors)-1)
			for _, s := range stors[1:] {
				secs = append(secs, s)
			}
			fan = storage.NewFanout(promslog.NewNopLogger(), stors[0], secs...)
			e.closes = make([]int, len(stors))
		}
	}
	for _, op := range ops {
		f := strings.Fields(op)
		out := "bad-op"
		switch {
		case f[0] == "st" && len(f) == 4 && fan == nil:
			idx, err := strconv.Atoi(f[1])
			fl, ok1 := parseFaults(f[2])
			ser, ok2 := parseSeries(f[3])
			if err == nil && idx == len(stors) && idx <= 4 && ok1 && ok2 {
				stors = append(stors, &fakeStorage{idx: idx, f: fl, data: ser, env: e})
				out = "ok"
			}
		case f[0] == "querier" && len(f) == 1 && len(stors) > 0 && q == nil:
			mk()
			var err error
			if p, v := h.Try(func() { q, err = fan.Querier(0, 1000) }); p {
				out = "panic " + h.HexS(fmt.Sprint(v))
				q = nil
			} else if err != nil {
				var cl []string
				for i, n := range e.closes {
					for k := 0; k < n; k++ {
						cl = append(cl, strconv.Itoa(i))
					}
				}
				out = fmt.Sprintf("err=%s closed=%s", errID(err), joinOr(cl, ","))
				q = nil
				e.closes = make([]int, len(stors))
			} else {
				out = "ok"
				sets, drained = nil, false
			}
		case f[0] == "select" && len(f) == 3 && q != nil && !drained:
			pos := map[int]int{}
			ok := len(f[1]) == len(stors)
			for p, ch := range f[1] {
				i := int(ch - '0')
				if i < 0 || i >= len(stors) {
					ok = false
					break
				}
				if _, dup := pos[i]; dup {
					ok = false
				}
				pos[i] = p
			}
			if !ok {
				break
			}
			waitGoroutines(base)
			n := len(stors)
			e.g = &gate{active: n > 1, total: runtime.NumGoroutine() + n + 1, pos: pos}
			var ms []*labels.Matcher
			if f[2] != "*" {
				alts := strings.Split(f[2], "")
				ms = append(ms, labels.MustNewMatcher(labels.MatchRegexp, "l", strings.Join(alts, "|")))
			}
			var ss storage.SeriesSet
			if p, v := h.Try(func() { ss = q.Select(context.Background(), true, nil, ms...) }); p {
				out = "panic " + h.HexS(fmt.Sprint(v))
			} else {
				sets = append(sets, ss)
				out = "ok"
			}
			e.g = nil
			waitGoroutines(base)
		case f[0] == "drain" && len(f) == 2 && q != nil:
			j, err := strconv.Atoi(f[1])
			if err != nil || j < 0 || j >= len(sets) || sets[j] == nil {
				break
			}
			drained = true
			out = drain(sets[j])
			sets[j] = nil
		case (f[0] == "lv" || f[0] == "ln") && len(f) == 1 && q != nil:
			var vals []string
			var ws annotations.Annotations
			var err error
			if p, v := h.Try(func() {
				if f[0] == "lv" {
					vals, ws, err = q.LabelValues(context.Background(), "l", nil)
				} else {
					vals, ws, err = q.LabelNames(context.Background(), nil)
				}
			}); p {
				out = "panic " + h.HexS(fmt.Sprint(v))
			} else if err != nil {
				out = "err=" + errID(err)
			} else {
				out = fmt.Sprintf("vals=%s warn=%s", joinOr(vals, ","), warnIDs(ws))
			}
		case f[0] == "qclose" && len(f) == 1 && q != nil:
			var err error
			if p, v := h.Try(func() { err = q.Close() }); p {
				out = "panic " + h.HexS(fmt.Sprint(v))
			} else {
				cl := make([]string, len(e.closes))
				for i, n := range e.closes {
					cl[i] = strconv.Itoa(n)
				}
				out = fmt.Sprintf("closed=%s", strings.Join(cl, ","))
				if err != nil {
					out += " err=" + errID(err)
				}
			}
			q, sets = nil, nil
			e.closes = make([]int, len(stors))
		case (f[0] == "appender" || f[0] == "appender2") && len(f) == 1 && len(stors) > 0:
			mk()
			app, app2 = nil, nil
			if f[0] == "appender" {
				app = fan.Appender(context.Background())
			} else {
				app2 = fan.AppenderV2(context.Background())
			}
			out = "ok"
		case f[0] == "app" && len(f) == 6 && (app != nil || app2 != nil):
			ref, e0 := strconv.ParseUint(f[2], 10, 64)
			lid, e1 := strconv.Atoi(f[3])
			t, e2 := strconv.ParseInt(f[4], 10, 64)
			v, e3 := strconv.ParseInt(f[5], 10, 64)
			if e0 != nil || e1 != nil || e2 != nil || e3 != nil || (f[1] == "2") != (app2 != nil) {
				break
			}
			e.appSaw = make([]string, len(stors))
			for i := range e.appSaw {
				e.appSaw[i] = "-"
			}
			l := lset(lid)
			var got storage.SeriesRef
			var err error
			r := storage.SeriesRef(ref)
			known := true
			p, pv := h.Try(func() {
				switch f[1] {
				case "f":
					got, err = app.Append(r, l, t, float64(v))
				case "h":
					got, err = app.AppendHistogram(r, l, t, &histogram.Histogram{Count: uint64(v)}, nil)
				case "e":
					got, err = app.AppendExemplar(r, l, exemplar.Exemplar{Value: float64(v), Ts: t})
				case "m":
					got, err = app.UpdateMetadata(r, l, metadata.Metadata{Help: strconv.FormatInt(t, 10), Unit: strconv.FormatInt(v, 10)})
				case "z":
					got, err = app.AppendSTZeroSample(r, l, t, v)
				case "y":
					got, err = app.AppendHistogramSTZeroSample(r, l, t, v, &histogram.Histogram{}, nil)
				case "2":
					got, err = app2.Append(r, l, 0, t, float64(v), nil, nil, storage.AOptions{})
				default:
					known = false
				}
			})
			if !known {
				break
			}
			if p {
				out = "panic " + h.HexS(fmt.Sprint(pv))
			} else {
				out = fmt.Sprintf("ref=%d err=%s saw=%s", uint64(got), errID(err), strings.Join(e.appSaw, ","))
			}
		case (f[0] == "commit" || f[0] == "rollback") && len(f) == 1 && (app != nil || app2 != nil):
			e.calls = make([]string, len(stors))
			for i := range e.calls {
				e.calls[i] = "-"
			}
			var err error
			p, pv := h.Try(func() {
				switch {
				case app != nil && f[0] == "commit":
					err = app.Commit()
				case app != nil:
					err = app.Rollback()
				case f[0] == "commit":
					err = app2.Commit()
				default:
					err = app2.Rollback()
				}
			})
			app, app2 = nil, nil
			if p {
				out = "panic " + h.HexS(fmt.Sprint(pv))
			} else {
				data := make([]string, len(stors))
				for i, s := range stors {
					data[i] = joinOr(s.committed, ",")
				}
				out = fmt.Sprintf("err=%s calls=%s data=%s", errID(err), strings.Join(e.calls, ","), strings.Join(data, "|"))
			}
		}
		c.Op(op, out)
		c.Count("op:" + f[0])
		if (strings.HasPrefix(out, "err=") || strings.Contains(out, " err=")) && !strings.Contains(out, "err=none") {
			c.Count("out:error:" + f[0])
		}
		if strings.Contains(out, "warn=") && !strings.HasSuffix(out, "warn=-") {
			c.Count("out:warning:" + f[0])
		}
	}
}

// ---------- generator ----------

func genSeries(r *h.Rng, salt int) string {
	if r.Chance(12) {
		return "-"
	}
	var parts []string
	nl := 6
	for lid := 0; lid < nl; lid++ {
		if !r.Chance(45) {
			continue
		}
		var smp []string
		for t := int64(0); t < 6; t++ {
			if r.Chance(45) {
				smp = append(smp, fmt.Sprintf("%d.%d", t*10, (int64(lid)*7+t*3+int64(salt))%10))
			}
		}
		parts = append(parts, fmt.Sprintf("%d:%s", lid, strings.Join(smp, ",")))
	}
	return joinOr(parts, ";")
}

func countSeries(s string) int {
	if s == "-" {
		return 0
	}
	return strings.Count(s, ";") + 1
}

func genFaults(r *h.Rng, idx, nser int, heavy bool) string {
	var fs []string
	p := 22
	if heavy {
		p = 45
	}
	if r.Chance(p) {
		switch r.Intn(10) {
		case 0:
			fs = append(fs, "cr")
		case 1, 2:
			fs = append(fs, fmt.Sprintf("s%d", r.Intn(2)))
		case 3, 4, 5:
			fs = append(fs, fmt.Sprintf("n%d.1", r.Intn(2)))
		case 6:
			// exactly at the clean-exhaustion step
			fs = append(fs, fmt.Sprintf("n%d.%d", r.Intn(2), nser+1))
		case 7:
			fs = append(fs, fmt.Sprintf("n%d.%d", r.Intn(2), 2+r.Intn(nser+2)))
		case 8:
			fs = append(fs, "lv")
		case 9:
			fs = append(fs, "ln")
		}
		if r.Chance(15) {
			fs = append(fs, h.Pick(r, []string{"lv", "ln", "s1", "n1.1", "n0.1", "n1.2"}))
		}
	}
	if r.Chance(p) {
		switch r.Intn(4) {
		case 0, 1:
			fs = append(fs, fmt.Sprintf("a%d", 1+r.Intn(4)))
		case 2:
			fs = append(fs, "co")
		case 3:
			fs = append(fs, "rb")
		}
		if r.Chance(20) {
			fs = append(fs, h.Pick(r, []string{"co", "rb"}))
		}
	}
	// dedup tokens of the same class
	seen := map[string]bool{}
	var out []string
	for _, t := range fs {
		key := t
		if t[0] == 'a' {
			key = "a"
		} else if t[0] == 'n' {
			key = strings.SplitN(t, ".", 2)[0]
		}
		if !seen[key] {
			seen[key] = true
			out = append(out, t)
		}
	}
	_ = idx
	return joinOr(out, ",")
}

func perm(r *h.Rng, n int) string {
	p := make([]int, n)
	for i := range p {
		p[i] = i
	}
	for i := n - 1; i > 0; i-- {
		j := r.Intn(i + 1)
		p[i], p[j] = p[j], p[i]
	}
	var b strings.Builder
	for _, x := range p {
		b.WriteByte(byte('0' + x))
	}
	return b.String()
}

func genCase(r *h.Rng) []string {
	var ops []string
	nsec := r.Intn(4)
	if r.Chance(10) {
		nsec = 4
	}
	heavy := r.Chance(35)
	salt := r.Intn(10)
	for i := 0; i <= nsec; i++ {
		ser := genSeries(r, salt)
		fl := genFaults(r, i, countSeries(ser), heavy)
		if i == 0 && !r.Chance(35) {
			// keep the primary mostly healthy so that secondary behaviour stays visible
			fl = "-"
		}
		ops = append(ops, fmt.Sprintf("st %d %s %s", i, fl, ser))
	}
	rounds := 1 + r.Intn(2)
	for k := 0; k < rounds; k++ {
		if r.Chance(75) {
			ops = append(ops, "querier")
			if r.Chance(30) {
				ops = append(ops, h.Pick(r, []string{"lv", "ln"}))
			}
			nsel := 1 + r.Intn(2)
			if r.Chance(8) {
				nsel = 3
			}
			for j := 0; j < nsel; j++ {
				mask := "*"
				if r.Chance(30) {
					mask = ""
					for d := 0; d < 6; d++ {
						if r.Chance(50) {
							mask += strconv.Itoa(d)
						}
					}
					if mask == "" {
						mask = "9"
					}
				}
				ops = append(ops, fmt.Sprintf("select %s %s", perm(r, nsec+1), mask))
			}
			order := perm(r, nsel)
			for _, ch := range order {
				if r.Chance(90) {
					ops = append(ops, fmt.Sprintf("drain %c", ch))
				}
			}
			if r.Chance(40) {
				ops = append(ops, h.Pick(r, []string{"lv", "ln"}))
			}
			if r.Chance(60) {
				ops = append(ops, "qclose")
			}
		}
		if r.Chance(60) {
			v2 := r.Chance(25)
			if v2 {
				ops = append(ops, "appender2")
			} else {
				ops = append(ops, "appender")
			}
			na := r.Intn(5)
			for a := 0; a < na; a++ {
				kind := "2"
				if !v2 {
					kind = h.Pick(r, []string{"f", "f", "f", "h", "e", "m", "z", "y"})
				}
				ref := 0
				if r.Chance(30) {
					ref = 1 + r.Intn(50)
				}
				ops = append(ops, fmt.Sprintf("app %s %d %d %d %d", kind, ref, r.Intn(6), r.Intn(100), r.Intn(50)))
			}
			if r.Chance(80) {
				ops = append(ops, "commit")
			} else {
				ops = append(ops, "rollback")
			}
		}
	}
	return ops
}

func main() {
	c := h.Init()
	base := runtime.NumGoroutine()
	if c.Replay != "" {
		for _, cs := range c.ReplayCases() {
			c.Case(strings.TrimPrefix(cs[0], "case "))
			runCase(c, cs[1:], base)
		}
		c.Finish()
		return
	}
	for i := 0; i < c.N; i++ {
		r := c.Rng.Fork()
		ops := genCase(r)
		c.Case(fmt.Sprintf("g%d", i))
		runCase(c, ops, base)
		nt := false
		for _, o := range ops {
			if strings.HasPrefix(o, "st ") && !strings.HasPrefix(o, "st 0 ") && !strings.Contains(o, " - ") {
				nt = true
			}
		}
		if nt {
			c.NonTrivial(strings.Join(ops, "/"))
		}
	}
	if gatingBroken.Load() {
		c.Count("gating-broken")
	}
	c.Finish()
}
