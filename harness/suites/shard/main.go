// Suite shard (C18): labels.StableHash and query sharding on a real tsdb.DB.
//
// The same source is built three times (-tags verif | verif,slicelabels | verif,dedupelabels); every
// build is compared with the one Lean model, so all three must agree with each other.
//
// ops (hash cases):
//
//	hash <new|fs|sb|bld> <labels>      -> 16 hex digits (labels.StableHash)
//
// ops (db cases):
//
//	series <h|b|hb> <labels>           -> ok         (declares series k = number of earlier series lines)
//	build <0|1|2>                      -> ok blocks=<0|1>   (0: EnableSharding off; 1: on; 2: on + out-of-order window with
//	                                      OOO samples on half of the head series, so that db.Querier goes through the
//	                                      HeadAndOOO readers; block series are compacted into a block)
//	restart                            -> ok
//	sel <head|block|both> <q|c> <n> <all|eq:<name>:<value>|neq:<name>:<value>>
//	                                   -> u=<l> s=<l0>|…|<l(n-1)> x=<l>   |   err <class>
//
// <labels> = "-" | hexname:hexvalue,… ; <l> = series indices in returned order ("-" = none).
package main

import (
	"context"
	"fmt"
	"math"
	"os"
	"sort"
	"strconv"
	"strings"

	"github.com/prometheus/common/promslog"

	"github.com/prometheus/prometheus/model/labels"
	"github.com/prometheus/prometheus/storage"
	"github.com/prometheus/prometheus/tsdb"

	"verif/harness/h"
)

// ---------------------------------------------------------------- label sets

type lbl struct{ n, v string }

func encLabels(ls []lbl) string {
	if len(ls) == 0 {
		return "-"
	}
	parts := make([]string, len(ls))
	for i, l := range ls {
		parts[i] = h.HexS(l.n) + ":" + h.HexS(l.v)
	}
	return strings.Join(parts, ",")
}

func decLabels(s string) []lbl {
	if s == "-" {
		return nil
	}
	var out []lbl
	for _, p := range strings.Split(s, ",") {
		kv := strings.SplitN(p, ":", 2)
		out = append(out, lbl{string(h.UnHex(kv[0])), string(h.UnHex(kv[1]))})
	}
	return out
}

func mkLabels(via string, ls []lbl) labels.Labels {
	switch via {
	case "fs":
		ss := make([]string, 0, 2*len(ls))
		for _, l := range ls {
			ss = append(ss, l.n, l.v)
		}
		return labels.FromStrings(ss...)
	case "sb":
		b := labels.NewScratchBuilder(len(ls))
		for _, l := range ls {
			b.Add(l.n, l.v)
		}
		b.Sort()
		return b.Labels()
	case "bld":
		b := labels.NewBuilder(labels.EmptyLabels())
		for _, l := range ls {
			b.Set(l.n, l.v)
		}
		return b.Labels()
	default:
		in := make([]labels.Label, len(ls))
		for i, l := range ls {
			in[i] = labels.Label{Name: l.n, Value: l.v}
		}
		return labels.New(in...)
	}
}

// ---------------------------------------------------------------- db environment

type series struct {
	place string
	ls    labels.Labels
}

type env struct {
	dir    string
	db     *tsdb.DB
	opts   *tsdb.Options
	series []series
	byKey  map[string]int
}

const (
	blockT0, blockT1 = int64(0), int64(100)
	headT0, headT1   = int64(1000), int64(1100)
)

func (e *env) open() error {
	db, err := tsdb.Open(e.dir, promslog.NewNopLogger(), nil, e.opts, nil)
	if err != nil {
		return err
	}
	db.DisableCompactions()
	e.db = db
	return nil
}

func (e *env) close() {
	if e.db != nil {
		e.db.Close()
		e.db = nil
	}
}

func key(ls labels.Labels) string { return string(ls.Bytes(nil)) }

func (e *env) appendPhase(places string, t0 int64) (int, error) {
	app := e.db.Appender(context.Background())
	n := 0
	for i, s := range e.series {
		if !strings.Contains(places, "|"+s.place+"|") {
			continue
		}
		for k := 0; k < 1+i%3; k++ {
			if _, err := app.Append(0, s.ls, t0+int64(i%7)+int64(10*k), float64(i)); err != nil {
				app.Rollback()
				return 0, err
			}
		}
		n++
	}
	return n, app.Commit()
}

// tmpRoot prefers a memory-backed directory: a db case is dominated by fsyncs otherwise.
func tmpRoot() string {
	if st, err := os.Stat("/dev/shm"); err == nil && st.IsDir() {
		return "/dev/shm"
	}
	return ""
}

func (e *env) build(mode string) (string, error) {
	sharding, ooo := mode != "0", mode == "2"
	dir, err := os.MkdirTemp(tmpRoot(), "verif-shard-")
	if err != nil {
		return "", err
	}
	e.dir = dir
	o := tsdb.DefaultOptions()
	o.RetentionDuration = 0
	o.WALSegmentSize = 128 * 1024
	o.StripeSize = 512
	o.EnableSharding = sharding
	if ooo {
		o.OutOfOrderTimeWindow = 100000
	}
	e.opts = o
	if err := e.open(); err != nil {
		return "", err
	}
	nb, err := e.appendPhase("|b|hb|", blockT0)
	if err != nil {
		return "", err
	}
	if nb > 0 {
		if err := e.db.CompactHead(tsdb.NewRangeHead(e.db.Head(), blockT0, blockT1)); err != nil {
			return "", err
		}
	}
	if _, err := e.appendPhase("|h|hb|", headT0); err != nil {
		return "", err
	}
	if ooo {
		app := e.db.Appender(context.Background())
		for i, s := range e.series {
			if s.place == "b" || i%2 == 1 {
				continue
			}
			if _, err := app.Append(0, s.ls, headT0-100-int64(i%5), float64(-i)); err != nil {
				app.Rollback()
				return "", err
			}
		}
		if err := app.Commit(); err != nil {
			return "", err
		}
	}
	return fmt.Sprintf("ok blocks=%d", len(e.db.Blocks())), nil
}

func (e *env) selectOnce(where string, chunk bool, hints *storage.SelectHints, ms []*labels.Matcher) ([]int, error) {
	mint, maxt := int64(math.MinInt64), int64(math.MaxInt64)
	switch where {
	case "head":
		mint, maxt = headT0, headT1
	case "block":
		mint, maxt = blockT0, blockT1
	}
	if hints != nil {
		hints.Start, hints.End = mint, maxt
	}
	msCopy := append([]*labels.Matcher(nil), ms...)
	var out []int
	add := func(ls labels.Labels) {
		if i, ok := e.byKey[key(ls)]; ok {
			out = append(out, i)
		} else {
			out = append(out, 999999) // a series nobody declared
		}
	}
	ctx := context.Background()
	if chunk {
		var q storage.ChunkQuerier
		var err error
		switch where {
		case "head":
			q, err = tsdb.NewBlockChunkQuerier(tsdb.NewRangeHead(e.db.Head(), mint, maxt), mint, maxt)
		case "block":
			if len(e.db.Blocks()) == 0 {
				return nil, nil
			}
			q, err = tsdb.NewBlockChunkQuerier(e.db.Blocks()[0], mint, maxt)
		default:
			q, err = e.db.ChunkQuerier(mint, maxt)
		}
		if err != nil {
			return nil, err
		}
		defer q.Close()
		ss := q.Select(ctx, true, hints, msCopy...)
		for ss.Next() {
			s := ss.At()
			it := s.Iterator(nil)
			nchk := 0
			for it.Next() {
				nchk++
			}
			if nchk == 0 {
				continue // the sample querier drops such series itself
			}
			add(s.Labels())
		}
		return out, ss.Err()
	}
	var q storage.Querier
	var err error
	switch where {
	case "head":
		q, err = tsdb.NewBlockQuerier(tsdb.NewRangeHead(e.db.Head(), mint, maxt), mint, maxt)
	case "block":
		if len(e.db.Blocks()) == 0 {
			return nil, nil
		}
		q, err = tsdb.NewBlockQuerier(e.db.Blocks()[0], mint, maxt)
	default:
		q, err = e.db.Querier(mint, maxt)
	}
	if err != nil {
		return nil, err
	}
	defer q.Close()
	ss := q.Select(ctx, true, hints, msCopy...)
	for ss.Next() {
		add(ss.At().Labels())
	}
	return out, ss.Err()
}

func showList(l []int) string {
	if len(l) == 0 {
		return "-"
	}
	p := make([]string, len(l))
	for i, x := range l {
		p[i] = strconv.Itoa(x)
	}
	return strings.Join(p, ",")
}

func errClass(err error) string {
	s := err.Error()
	if strings.Contains(s, "sharding is disabled") {
		return "err sharding-disabled"
	}
	return "err other:" + strings.ReplaceAll(s, " ", "_")
}

func parseMatcher(s string) []*labels.Matcher {
	f := strings.Split(s, ":")
	switch f[0] {
	case "eq":
		return []*labels.Matcher{labels.MustNewMatcher(labels.MatchEqual, string(h.UnHex(f[1])), string(h.UnHex(f[2])))}
	case "neq":
		return []*labels.Matcher{labels.MustNewMatcher(labels.MatchNotEqual, string(h.UnHex(f[1])), string(h.UnHex(f[2])))}
	default:
		return []*labels.Matcher{labels.MustNewMatcher(labels.MatchEqual, "", "")}
	}
}

func (e *env) sel(where string, chunk bool, n uint64, ms []*labels.Matcher) string {
	var hints *storage.SelectHints
	if chunk {
		hints = &storage.SelectHints{} // ShardCount 0 = unsharded
	}
	u, err := e.selectOnce(where, chunk, hints, ms)
	if err != nil {
		return errClass(err)
	}
	var shards []string
	for i := uint64(0); i <= n; i++ {
		if n == 0 {
			break
		}
		r, err := e.selectOnce(where, chunk, &storage.SelectHints{ShardCount: n, ShardIndex: i}, ms)
		if err != nil {
			return errClass(err)
		}
		shards = append(shards, showList(r))
	}
	s, x := "none", ""
	if n == 0 {
		r, err := e.selectOnce(where, chunk, &storage.SelectHints{ShardCount: 0, ShardIndex: 0}, ms)
		if err != nil {
			return errClass(err)
		}
		x = showList(r)
	} else {
		s, x = strings.Join(shards[:n], "|"), shards[n]
	}
	return fmt.Sprintf("u=%s s=%s x=%s", showList(u), s, x)
}

// ---------------------------------------------------------------- running a case

func runCase(c *h.Ctx, ops []string) {
	e := &env{byKey: map[string]int{}}
	defer func() {
		e.close()
		if e.dir != "" {
			os.RemoveAll(e.dir)
		}
	}()
	for _, op := range ops {
		f := strings.Fields(op)
		out := "bad-op"
		p, pv := h.Try(func() {
			switch {
			case f[0] == "hash" && len(f) == 3:
				out = fmt.Sprintf("%016x", labels.StableHash(mkLabels(f[1], decLabels(f[2]))))
			case f[0] == "series" && len(f) == 3:
				ls := mkLabels("new", decLabels(f[2]))
				e.byKey[key(ls)] = len(e.series)
				e.series = append(e.series, series{f[1], ls})
				out = "ok"
			case f[0] == "build" && len(f) == 2:
				if e.db != nil {
					out = "err already-built"
					return
				}
				r, err := e.build(f[1])
				if err != nil {
					out = errClass(err)
				} else {
					out = r
				}
			case f[0] == "restart" && len(f) == 1:
				if e.db == nil {
					out = "err closed"
					return
				}
				if err := e.db.Close(); err != nil {
					out = errClass(err)
					return
				}
				e.db = nil
				if err := e.open(); err != nil {
					out = errClass(err)
					return
				}
				out = "ok"
			case f[0] == "sel" && len(f) == 5:
				if e.db == nil {
					out = "err closed"
					return
				}
				n, _ := strconv.ParseUint(f[3], 10, 64)
				out = e.sel(f[1], f[2] == "c", n, parseMatcher(f[4]))
			}
		})
		if p {
			out = "panic:" + strings.ReplaceAll(fmt.Sprint(pv), " ", "_")
			c.Count("panic")
		}
		c.Count("op:" + f[0])
		c.Op(op, out)
	}
}

// ---------------------------------------------------------------- generators

var namePool = []string{"__name__", "job", "instance", "a", "b", "le", "zone", "pod", "é", "名前", "a_b", "A", "z9", "quantile", "__meta__", "x y"}
var valPool = []string{"", "a", "b", "up", "node", "localhost:9090", "0.5", "+Inf", "é", "日本語", "😀", "a b", "a,b:c", "\"q\"", "\n", "ÿ", "߿ࠀ", "prometheus"}

func randStr(r *h.Rng, n int) string {
	b := make([]byte, 0, n+4)
	for len(b) < n {
		switch r.Intn(10) {
		case 0:
			b = append(b, string(rune(0x80+r.Intn(0x700)))...)
		case 1:
			b = append(b, string(rune(0x4e00+r.Intn(0x1000)))...)
		default:
			b = append(b, byte('a'+r.Intn(26)))
		}
	}
	// trim to exactly n bytes without cutting a rune: pad with ASCII instead
	for len(b) > n {
		b = b[:len(b)-1]
	}
	s := strings.ToValidUTF8(string(b), "")
	for len(s) < n {
		s += "x"
	}
	return s
}

// genSet makes a label set (distinct names). sizeTarget > 0 steers the serialised size
// (sum of len(name)+len(value)+2) to that value exactly, to hit the 1 KiB switch and the
// 32-byte stripe boundaries of the streaming digest.
func genSet(r *h.Rng, nl int, sizeTarget int, raw bool) []lbl {
	seen := map[string]bool{}
	var ls []lbl
	for len(ls) < nl {
		var n string
		if r.Chance(70) {
			n = h.Pick(r, namePool)
		} else {
			n = randStr(r, 1+r.Intn(12))
		}
		if seen[n] || n == "" {
			continue
		}
		seen[n] = true
		var v string
		switch k := r.Intn(100); {
		case k < 8:
			v = ""
		case k < 50:
			v = h.Pick(r, valPool)
		case k < 85:
			v = randStr(r, 1+r.Intn(24))
		case k < 95:
			v = randStr(r, 30+r.Intn(200))
		default:
			v = randStr(r, 900+r.Intn(1400))
		}
		if raw && r.Chance(15) {
			v += string([]byte{byte(0x80 + r.Intn(0x80))}) // not UTF-8, occasionally 0xFF itself
		}
		ls = append(ls, lbl{n, v})
	}
	if sizeTarget > 0 && len(ls) > 0 {
		// adjust one label's value so that the whole serialisation has sizeTarget bytes
		k := r.Intn(len(ls))
		total := 0
		for i, l := range ls {
			if i != k {
				total += len(l.n) + len(l.v) + 2
			}
		}
		want := sizeTarget - total - len(ls[k].n) - 2
		if want >= 0 {
			ls[k].v = randStr(r, want)
		}
	}
	return ls
}

func shuffle(r *h.Rng, ls []lbl) {
	for i := len(ls) - 1; i > 0; i-- {
		j := r.Intn(i + 1)
		ls[i], ls[j] = ls[j], ls[i]
	}
}

var sizeEdges = []int{1020, 1021, 1022, 1023, 1024, 1025, 1026, 1027, 1055, 1056, 1057, 1088, 2047, 2048, 2049, 31, 32, 33, 63, 64, 65}

func genHashCase(c *h.Ctx, r *h.Rng) []string {
	var ops []string
	nops := 1 + r.Intn(6)
	for i := 0; i < nops; i++ {
		nl := r.Intn(13)
		if r.Chance(5) {
			nl = 13 + r.Intn(40)
		}
		target := 0
		switch k := r.Intn(100); {
		case k < 30:
			target = h.Pick(r, sizeEdges)
		case k < 40:
			target = 900 + r.Intn(400)
		case k < 45:
			target = 1024 + r.Intn(4000)
		}
		raw := r.Chance(10)
		ls := genSet(r, nl, target, raw)
		shuffle(r, ls)
		via := h.Pick(r, []string{"new", "new", "fs", "sb", "bld"})
		size := 0
		for _, l := range ls {
			size += len(l.n) + len(l.v) + 2
		}
		switch {
		case size >= 1024:
			c.Count("hash:streaming")
		case size >= 1000:
			c.Count("hash:near-1KiB")
		default:
			c.Count("hash:buffered")
		}
		c.Count("hash:via-" + via)
		ops = append(ops, "hash "+via+" "+encLabels(ls))
		if r.Chance(25) { // the same set in another order / through another constructor
			ls2 := append([]lbl(nil), ls...)
			shuffle(r, ls2)
			ops = append(ops, "hash "+h.Pick(r, []string{"new", "fs", "sb"})+" "+encLabels(ls2))
		}
	}
	return ops
}

func sortedKey(ls []lbl) string {
	cp := append([]lbl(nil), ls...)
	sort.Slice(cp, func(i, j int) bool { return cp[i].n < cp[j].n })
	return encLabels(cp)
}

func genDbCase(c *h.Ctx, r *h.Rng) []string {
	var ops []string
	maxSer := 24
	if c.Tier == "thorough" {
		maxSer = 80
	}
	nser := 1 + r.Intn(maxSer)
	mode := r.Intn(10) // 0: all head, 1: all block, 2: all both, else mixed
	seen := map[string]bool{}
	metricPool := []string{"up", "http_requests_total", "m", "é_total"}
	var eqCands []lbl
	for len(seen) < nser {
		var ls []lbl
		if r.Chance(85) {
			ls = append(ls, lbl{"__name__", h.Pick(r, metricPool)})
		}
		if r.Chance(70) {
			ls = append(ls, lbl{"job", h.Pick(r, []string{"a", "b", "node"})})
		}
		if r.Chance(70) {
			ls = append(ls, lbl{"instance", "i" + strconv.Itoa(r.Intn(50))})
		}
		for _, l := range genSet(r, r.Intn(3), 0, false) {
			if l.n != "__name__" && l.n != "job" && l.n != "instance" && l.v != "" {
				if len(l.v) > 600 && !r.Chance(30) {
					continue
				}
				ls = append(ls, l)
			}
		}
		if r.Chance(4) { // push a series over the 1 KiB switch
			ls = append(ls, lbl{"long", randStr(r, 1000+r.Intn(300))})
		}
		if len(ls) == 0 {
			continue
		}
		k := sortedKey(ls)
		if seen[k] {
			continue
		}
		seen[k] = true
		place := "hb"
		switch mode {
		case 0:
			place = "h"
		case 1:
			place = "b"
		case 2:
		default:
			place = h.Pick(r, []string{"h", "b", "hb"})
		}
		shuffle(r, ls)
		eqCands = append(eqCands, ls[r.Intn(len(ls))])
		ops = append(ops, "series "+place+" "+encLabels(ls))
		c.Count("series:" + place)
	}
	sharding := !r.Chance(6)
	if sharding && r.Chance(30) {
		ops = append(ops, "build 2")
		c.Count("db:ooo")
	} else if sharding {
		ops = append(ops, "build 1")
	} else {
		ops = append(ops, "build 0")
		c.Count("db:sharding-disabled")
	}
	counts := []int{1, 2, 3, 4, 5, 6, 7, 8, 9, 10, 11, 12, 13, 14, 15, 16, 64}
	sels := func() {
		for _, w := range []string{"head", "block", "both"} {
			for _, n := range counts {
				qc := "q"
				if r.Chance(30) {
					qc = "c"
				}
				m := "all"
				if r.Chance(25) {
					l := eqCands[r.Intn(len(eqCands))]
					kind := "eq"
					if r.Chance(35) {
						kind = "neq"
					}
					m = kind + ":" + h.HexS(l.n) + ":" + h.HexS(l.v)
				}
				ops = append(ops, fmt.Sprintf("sel %s %s %d %s", w, qc, n, m))
			}
		}
		if r.Chance(20) {
			ops = append(ops, fmt.Sprintf("sel %s q 0 all", h.Pick(r, []string{"head", "block", "both"})))
		}
		if r.Chance(20) {
			ops = append(ops, fmt.Sprintf("sel both q %d all", 17+r.Intn(48)))
		}
	}
	sels()
	ops = append(ops, "restart")
	sels()
	return ops
}

func main() {
	c := h.Init()
	defer c.Finish()
	if c.Replay != "" {
		for _, cs := range c.ReplayCases() {
			c.Case(strings.TrimPrefix(cs[0], "case "))
			runCase(c, cs[1:])
		}
		return
	}
	// one db case per `dbEvery` cases (db cases are ~1000x the cost of a hash case)
	dbEvery := 50
	if v, ok := c.Extra["dbevery"]; ok {
		dbEvery, _ = strconv.Atoi(v)
	}
	for i := 0; i < c.N; i++ {
		r := c.Rng.Fork()
		if dbEvery > 0 && i%dbEvery == dbEvery-1 {
			ops := genDbCase(c, r)
			c.Case(fmt.Sprintf("d%d", i))
			c.NonTrivial(strings.Join(ops, ";"))
			c.Count("case:db")
			runCase(c, ops)
			continue
		}
		ops := genHashCase(c, r)
		c.Case(fmt.Sprintf("h%d", i))
		c.NonTrivial(strings.Join(ops, ";"))
		c.Count("case:hash")
		runCase(c, ops)
	}
}
