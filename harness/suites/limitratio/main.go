// Suite limitratio (C34): promql.HashRatioSampler.AddRatioSampleWithOffset on generated (ratio, offset)
// pairs (incl. offsets adjacent to r and to 1+(r-1)), and real `limit_ratio(r, v)` / `limit_ratio(r - 1, v)`
// instant queries on generated vectors (offsets from the real Labels.Hash()).
//
// ops:  pair <r16> <o16>                       -> <rc16> <a> <b>      rc = r-1 (binary64), a = sel(r,o), b = sel(rc,o)
//
//	vec <r16> <lbls>:<hash16>:<val16> ...  -> off=<o16,..> A=<idx,..|-> B=<idx,..|->
//	      lbls = hex("n\xffv\xffn\xffv…"), hash16 = Labels.Hash() at generation time (an *input* for the
//	      model: the label hash function is a parameter of the property), A / B = sorted indexes of the
//	      input series returned by limit_ratio(r, …) / limit_ratio(r - 1, …); `x` = a series not in the input.
//	out classes besides those: `panic`, `err <class>`.
package main

import (
	"context"
	"fmt"
	"math"
	"sort"
	"strconv"
	"strings"
	"time"

	"github.com/prometheus/prometheus/model/histogram"
	"github.com/prometheus/prometheus/model/labels"
	"github.com/prometheus/prometheus/promql"
	"github.com/prometheus/prometheus/promql/parser"
	"github.com/prometheus/prometheus/storage"
	"github.com/prometheus/prometheus/tsdb/chunkenc"
	"github.com/prometheus/prometheus/tsdb/chunks"
	"github.com/prometheus/prometheus/util/annotations"

	"verif/harness/h"
)

func f16(f float64) string { return fmt.Sprintf("%016x", math.Float64bits(f)) }
func p16(s string) float64 {
	u, err := strconv.ParseUint(s, 16, 64)
	if err != nil {
		panic(err)
	}
	return math.Float64frombits(u)
}
func b2s(b bool) string {
	if b {
		return "1"
	}
	return "0"
}

var sampler = promql.NewHashRatioSampler()

// ---------------------------------------------------------------- pair ops

func doPair(r, o float64) string {
	var out string
	if p, _ := h.Try(func() {
		rc := r - 1
		a := sampler.AddRatioSampleWithOffset(r, o)
		b := sampler.AddRatioSampleWithOffset(rc, o)
		rcs := f16(rc)
		if math.IsNaN(rc) {
			rcs = "nan" // NaN payloads of arithmetic results are not part of the model
		}
		out = rcs + " " + b2s(a) + " " + b2s(b)
	}); p {
		return "panic"
	}
	return out
}

// ---------------------------------------------------------------- vec ops (real queries)

type fsample struct {
	t int64
	f float64
}

func (s fsample) T() int64                    { return s.t }
func (s fsample) ST() int64                   { return 0 }
func (s fsample) F() float64                  { return s.f }
func (fsample) H() *histogram.Histogram       { return nil }
func (fsample) FH() *histogram.FloatHistogram { return nil }
func (fsample) Type() chunkenc.ValueType      { return chunkenc.ValFloat }
func (s fsample) Copy() chunks.Sample         { return s }

type listSet struct {
	ss []storage.Series
	i  int
}

func (l *listSet) Next() bool                      { l.i++; return l.i <= len(l.ss) }
func (l *listSet) At() storage.Series              { return l.ss[l.i-1] }
func (*listSet) Err() error                        { return nil }
func (*listSet) Warnings() annotations.Annotations { return nil }

var engine *promql.Engine

func getEngine() *promql.Engine {
	if engine == nil {
		engine = promql.NewEngine(promql.EngineOpts{
			MaxSamples:    1000000,
			Timeout:       time.Minute,
			LookbackDelta: 5 * time.Minute,
			Parser:        parser.NewParser(parser.Options{EnableExperimentalFunctions: true}),
		})
	}
	return engine
}

type series struct {
	tok  string
	lbls labels.Labels
	val  float64
}

func encLabels(l labels.Labels) string {
	var sb strings.Builder
	first := true
	l.Range(func(x labels.Label) {
		if !first {
			sb.WriteByte(0xff)
		}
		first = false
		sb.WriteString(x.Name)
		sb.WriteByte(0xff)
		sb.WriteString(x.Value)
	})
	return h.HexS(sb.String())
}

func decLabels(s string) labels.Labels {
	parts := strings.Split(string(h.UnHex(s)), "\xff")
	b := labels.NewScratchBuilder(len(parts) / 2)
	for i := 0; i+1 < len(parts); i += 2 {
		b.Add(parts[i], parts[i+1])
	}
	b.Sort()
	return b.Labels()
}

func query(q string, in []series) (string, bool) {
	ss := make([]storage.Series, len(in))
	for i, s := range in {
		ss[i] = storage.NewListSeries(s.lbls, []chunks.Sample{fsample{t: 0, f: s.val}})
	}
	qb := &storage.MockQueryable{MockQuerier: &storage.MockQuerier{
		SelectMockFunction: func(bool, *storage.SelectHints, ...*labels.Matcher) storage.SeriesSet {
			return &listSet{ss: ss}
		}}}
	ctx := context.Background()
	qry, err := getEngine().NewInstantQuery(ctx, qb, nil, q, time.Unix(0, 0))
	if err != nil {
		return "err parse", false
	}
	defer qry.Close()
	res := qry.Exec(ctx)
	if res.Err != nil {
		return "err exec", false
	}
	vec, err := res.Vector()
	if err != nil {
		return "err type", false
	}
	var idx []int
	foreign := 0
	for _, smp := range vec {
		found := -1
		for i, s := range in {
			if labels.Equal(s.lbls, smp.Metric) {
				found = i
				break
			}
		}
		if found < 0 {
			foreign++
		} else {
			idx = append(idx, found)
		}
	}
	sort.Ints(idx)
	parts := make([]string, 0, len(idx)+foreign)
	for _, i := range idx {
		parts = append(parts, strconv.Itoa(i))
	}
	for i := 0; i < foreign; i++ {
		parts = append(parts, "x")
	}
	if len(parts) == 0 {
		return "-", true
	}
	return strings.Join(parts, ","), true
}

func fmtF(f float64) string { return strconv.FormatFloat(f, 'g', -1, 64) }

func doVec(r float64, in []series) string {
	var out string
	if p, v := h.Try(func() {
		offs := make([]string, len(in))
		for i := range in {
			offs[i] = f16(sampler.SampleOffset(&in[i].lbls))
		}
		const sel = `{__name__=~".+"}`
		a, ok := query("limit_ratio("+fmtF(r)+", "+sel+")", in)
		if !ok {
			out = a
			return
		}
		b, ok := query("limit_ratio("+fmtF(r)+" - 1, "+sel+")", in)
		if !ok {
			out = b
			return
		}
		out = "off=" + strings.Join(offs, ",") + " A=" + a + " B=" + b
	}); p {
		_ = v
		return "panic"
	}
	return out
}

// ---------------------------------------------------------------- replay / dispatch

func runOp(c *h.Ctx, op string) {
	f := strings.Fields(op)
	switch {
	case len(f) == 3 && f[0] == "pair":
		out := doPair(p16(f[1]), p16(f[2]))
		c.Op(op, out)
	case len(f) >= 3 && f[0] == "vec":
		var in []series
		for _, t := range f[2:] {
			p := strings.Split(t, ":")
			if len(p) != 3 {
				c.Op(op, "err bad-op")
				return
			}
			in = append(in, series{tok: t, lbls: decLabels(p[0]), val: p16(p[2])})
		}
		c.Op(op, doVec(p16(f[1]), in))
	default:
		c.Op(op, "err bad-op")
	}
}

// ---------------------------------------------------------------- generators

func ulps(x float64, k int) float64 {
	for ; k > 0; k-- {
		x = math.Nextafter(x, math.Inf(1))
	}
	for ; k < 0; k++ {
		x = math.Nextafter(x, math.Inf(-1))
	}
	return x
}

var rPool = []float64{
	0, math.Copysign(0, -1), 1, -1, 0.5, -0.5, 0.25, 0.75, 0.1, 0.2, 0.3, 0.4, 0.6, 0.7, 0.8, 0.9, 1.0 / 3, 2.0 / 3, 0.01, 0.001,
	0x1p-52, 0x1p-53, 0x1p-54, 0x1p-55, 0x1p-60, 0x1p-64, 0x1p-65, 0x1p-100, 0x1p-1022, 0x1p-1074, 0x1p-1023, 0x0.fffffffffffffp-1022,
	1 - 0x1p-53, 1 - 0x1p-52, 1 + 0x1p-52, 0.5 - 0x1p-54, 0.5 + 0x1p-53, 0.25 - 0x1p-55, 0.25 + 0x1p-54,
	2, 1.5, 1e300, math.MaxFloat64,
}

func genR(r *h.Rng) float64 {
	switch k := r.Intn(100); {
	case k < 25:
		x := h.Pick(r, rPool)
		if r.Chance(15) {
			x = -x
		}
		return x
	case k < 45: // multiples of 2^-53 in [0,1): these round-trip exactly
		return r.Float()
	case k < 85: // full 52-bit mantissa at a random (small) binary exponent: r-1 is inexact
		m := 1 + float64(r.U64()>>12)/(1<<52)
		e := -1 - r.Intn(8)
		if r.Chance(25) {
			e = -1 - r.Intn(70)
		}
		if r.Chance(3) {
			e = -1000 - r.Intn(74)
		}
		return math.Ldexp(m, e)
	case k < 92: // the complement side as a primary ratio: r in [-1,0)
		return -r.Float()
	case k < 97: // hash-like: uint64 / 2^64
		return float64(r.U64()) / float64(math.MaxUint64)
	default: // any bit pattern (NaN, Inf, huge, negative …): outside the statement, model must still agree
		return math.Float64frombits(r.U64())
	}
}

func genO(r *h.Rng, rr float64) float64 {
	t := 1 + (rr - 1)
	switch k := r.Intn(100); {
	case k < 30:
		return ulps(rr, int(r.Range(-4, 4)))
	case k < 55:
		return ulps(t, int(r.Range(-4, 4)))
	case k < 60:
		return ulps(rr, int(r.Range(-40, 40)))
	case k < 70:
		return h.Pick(r, []float64{0, 1, 1 - 0x1p-53, 0x1p-64, 0x1p-63, 0.5, 0x1p-1074, math.Copysign(0, -1), 0.5 - 0x1p-54})
	case k < 85:
		u := r.U64()
		if r.Chance(20) {
			u = math.MaxUint64 - uint64(r.Intn(4096))
		}
		if r.Chance(10) {
			u = uint64(r.Intn(4096))
		}
		return float64(u) / float64(math.MaxUint64)
	case k < 97:
		return r.Float()
	default:
		return math.Float64frombits(r.U64())
	}
}

var lnames = []string{"__name__", "job", "instance", "a", "b", "le", "zone", "pod"}

func genLabels(r *h.Rng) labels.Labels {
	b := labels.NewBuilder(labels.EmptyLabels())
	n := 1 + r.Intn(4)
	for i := 0; i < n; i++ {
		name := h.Pick(r, lnames)
		var v string
		switch r.Intn(3) {
		case 0:
			v = strconv.Itoa(r.Intn(1000))
		case 1:
			v = fmt.Sprintf("v%x", r.U64()&0xffffff)
		default:
			v = h.Pick(r, []string{"x", "prod", "é", "a b", "0", "http_requests_total"})
		}
		b.Set(name, v)
	}
	return b.Labels()
}

// genVec draws n series with pairwise distinct label sets, also distinct from those in avoid
// (a vector with a duplicate label set is not a valid PromQL vector).
func genVec(c *h.Ctx, r *h.Rng, n int, avoid []series) []series {
	seen := map[uint64]bool{}
	for _, s := range avoid {
		seen[s.lbls.Hash()] = true
	}
	var out []series
	for len(out) < n {
		l := genLabels(r)
		hh := l.Hash()
		if seen[hh] || l.Len() == 0 {
			continue
		}
		seen[hh] = true
		v := float64(r.Range(-5, 5))
		if r.Chance(10) {
			v = math.Float64frombits(r.U64())
		}
		out = append(out, series{lbls: l, val: v})
	}
	return out
}

func vecOp(r float64, in []series) string {
	var sb strings.Builder
	sb.WriteString("vec " + f16(r))
	for _, s := range in {
		sb.WriteString(fmt.Sprintf(" %s:%016x:%s", encLabels(s.lbls), s.lbls.Hash(), f16(s.val)))
	}
	return sb.String()
}

func classify(c *h.Ctx, r, o float64) {
	switch {
	case math.IsNaN(r) || math.IsInf(r, 0) || math.IsNaN(o) || math.IsInf(o, 0):
		c.Count("pair:special")
	case r < 0 || r > 1:
		c.Count("pair:r-outside-[0,1]")
	case o < 0 || o > 1:
		c.Count("pair:o-outside-[0,1]")
	default:
		c.Count("pair:in-statement")
		if 1+(r-1) != r {
			c.Count("pair:r-does-not-roundtrip")
		}
		d := int64(math.Float64bits(o)) - int64(math.Float64bits(r))
		if d >= -2 && d <= 2 {
			c.Count("pair:o-within-2ulp-of-r")
		}
		if o == 1 {
			c.Count("pair:o=1.0")
		}
	}
}

func main() {
	c := h.Init()
	defer c.Finish()
	if c.Replay != "" {
		for _, cs := range c.ReplayCases() {
			c.Case(strings.TrimPrefix(cs[0], "case "))
			for _, op := range cs[1:] {
				runOp(c, op)
			}
		}
		return
	}
	r := c.Rng
	for i := 0; i < c.N; i++ {
		if i%8 == 7 {
			// vec case: one generated vector, several ratios incl. ratios adjacent to a real series offset;
			// a second vector sharing series (other values, other companions) for the labels-only clause.
			c.Case(fmt.Sprintf("v%d", i))
			in := genVec(c, r, 2+r.Intn(14), nil)
			nq := 2 + r.Intn(3)
			var key []string
			for q := 0; q < nq; q++ {
				var rr float64
				switch k := r.Intn(10); {
				case k < 4:
					o := sampler.SampleOffset(&in[r.Intn(len(in))].lbls)
					rr = ulps(o, int(r.Range(-2, 2)))
					c.Count("vec:r-adjacent-to-series-offset")
				case k < 6:
					rr = h.Pick(r, []float64{0, 1, 0.5, 0.1, 0.9, 0.25, 1.0 / 3})
				default:
					rr = genR(r)
					for !(rr >= 0 && rr <= 1) {
						rr = genR(r)
					}
				}
				if rr > 1 {
					rr = 1
				}
				cur := in
				if q > 0 && r.Chance(50) {
					// sub-vector with fresh values and a fresh companion
					cur = nil
					for _, s := range in {
						if r.Chance(70) {
							cur = append(cur, series{lbls: s.lbls, val: float64(r.Range(-100, 100))})
						}
					}
					cur = append(cur, genVec(c, r, 1, in)...)
					c.Count("vec:resampled-subvector")
				}
				op := vecOp(rr, cur)
				key = append(key, op)
				runOp(c, op)
				c.Count("op:vec")
				c.Count(fmt.Sprintf("vec:len=%d", (len(cur)+3)/4*4))
			}
			c.NonTrivial(strings.Join(key, ";"))
			continue
		}
		c.Case(fmt.Sprintf("p%d", i))
		var key []string
		n := 4 + r.Intn(12)
		var lastR, lastO float64
		for k := 0; k < n; k++ {
			rr := genR(r)
			var o float64
			if k > 0 && r.Chance(25) {
				// same offset, another ratio (monotone clause); often a neighbouring ratio
				o = lastO
				if r.Chance(50) {
					rr = ulps(lastR, int(r.Range(-3, 3)))
				}
				c.Count("pair:shared-offset")
			} else {
				o = genO(r, rr)
			}
			lastR, lastO = rr, o
			classify(c, rr, o)
			op := "pair " + f16(rr) + " " + f16(o)
			key = append(key, op)
			runOp(c, op)
			c.Count("op:pair")
		}
		c.NonTrivial(strings.Join(key, ";"))
	}
}
