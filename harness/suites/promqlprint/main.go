// Suite promqlprint (C26): parser.ParseExpr / Expr.String / parser.Prettify round trips on
// grammar-generated PromQL text (all node kinds, every feature-flag combination) and on
// mutated / random strings (totality: a string parses or is rejected with a parse error; an
// `ErrUnexpected`, a foreign error type or an escaped panic is printed as `internal`).
//
//	op:   rt <flags> <hex text>        flags = 4 bits e d x f (experimental functions, duration
//	                                   expressions, extended range selectors, binop fill modifiers)
//	out:  err                          ParseExpr returned parser.ParseErrors
//	      internal <what>              ErrUnexpected / non-ParseErrors error / panic (String, Pretty too)
//	      ok <ast> ; <hex printed> ; <ast2|err> ; <hex printed2|-> ; <hex pretty> ; <ast3|err> ; <hex printed3|->
//	         ast  = S-expression of the parsed tree (positions stripped)
//	         ast2 = ParseExpr(printed), printed2 = its String()
//	         ast3 = ParseExpr(Prettify(expr)), printed3 = its String()
package main

import (
	"errors"
	"fmt"
	"math"
	"os"
	"sort"
	"strconv"
	"strings"

	"github.com/prometheus/prometheus/promql/parser"

	"verif/harness/h"
)

// ---------- S-expression of an AST ----------

func hx(s string) string { return h.HexS(s) }

func fbits(v float64) string {
	if math.IsNaN(v) {
		return "nan"
	}
	return fmt.Sprintf("%016x", math.Float64bits(v))
}

func itemName(t parser.ItemType) string {
	s := t.String()
	return hx(s)
}

func sxStrings(tag string, ss []string) string {
	var b strings.Builder
	b.WriteString("( " + tag)
	for _, s := range ss {
		b.WriteString(" " + hx(s))
	}
	b.WriteString(" )")
	return b.String()
}

func sxDurOpt(d *parser.DurationExpr) string {
	if d == nil {
		return "-"
	}
	return sx(d)
}

func sxOffset(off int64, e *parser.DurationExpr) string {
	switch {
	case e != nil:
		return "( offe " + sx(e) + " )"
	case off != 0:
		return fmt.Sprintf("( off %d )", off)
	}
	return "-"
}

func sxAt(ts *int64, soe parser.ItemType) string {
	switch {
	case ts != nil:
		return fmt.Sprintf("( ts %d )", *ts)
	case soe == parser.START:
		return "start"
	case soe == parser.END:
		return "end"
	case soe != 0:
		return "( badat " + itemName(soe) + " )"
	}
	return "-"
}

func sxFill(p *float64) string {
	if p == nil {
		return "-"
	}
	return fbits(*p)
}

func b01(b bool) string {
	if b {
		return "1"
	}
	return "0"
}

func sxOpt(e parser.Expr) string {
	if e == nil {
		return "-"
	}
	return sx(e)
}

func isNilExpr(e parser.Expr) bool {
	if e == nil {
		return true
	}
	switch n := e.(type) {
	case *parser.DurationExpr:
		return n == nil
	case *parser.VectorSelector:
		return n == nil
	}
	return false
}

func sx(e parser.Expr) string {
	if isNilExpr(e) {
		return "-"
	}
	switch n := e.(type) {
	case *parser.NumberLiteral:
		return "( num " + fbits(n.Val) + " " + b01(n.Duration) + " )"
	case *parser.StringLiteral:
		return "( str " + hx(n.Val) + " )"
	case *parser.VectorSelector:
		var b strings.Builder
		b.WriteString("( vs " + hx(n.Name) + " ( ms")
		for _, m := range n.LabelMatchers {
			if m == nil {
				b.WriteString(" nil")
				continue
			}
			b.WriteString(" ( m " + hx(m.Type.String()) + " " + hx(m.Name) + " " + hx(m.Value) + " )")
		}
		b.WriteString(" ) " + sxOffset(int64(n.OriginalOffset), n.OriginalOffsetExpr) + " " + sxAt(n.Timestamp, n.StartOrEnd))
		switch {
		case n.Anchored && n.Smoothed:
			b.WriteString(" both")
		case n.Anchored:
			b.WriteString(" anchored")
		case n.Smoothed:
			b.WriteString(" smoothed")
		default:
			b.WriteString(" -")
		}
		b.WriteString(" )")
		return b.String()
	case *parser.MatrixSelector:
		return fmt.Sprintf("( mat %s %d %s )", sx(n.VectorSelector), int64(n.Range), sxDurOpt(n.RangeExpr))
	case *parser.SubqueryExpr:
		return fmt.Sprintf("( sub %s %d %s %d %s %s %s )", sx(n.Expr), int64(n.Range), sxDurOpt(n.RangeExpr),
			int64(n.Step), sxDurOpt(n.StepExpr), sxOffset(int64(n.OriginalOffset), n.OriginalOffsetExpr), sxAt(n.Timestamp, n.StartOrEnd))
	case *parser.Call:
		var b strings.Builder
		name := "?"
		if n.Func != nil {
			name = n.Func.Name
		}
		b.WriteString("( call " + hx(name))
		for _, a := range n.Args {
			b.WriteString(" " + sx(a))
		}
		b.WriteString(" )")
		return b.String()
	case *parser.AggregateExpr:
		return "( agg " + itemName(n.Op) + " " + b01(n.Without) + " " + sxStrings("grp", n.Grouping) + " " + sxOpt(n.Param) + " " + sxOpt(n.Expr) + " )"
	case *parser.BinaryExpr:
		vm := "-"
		if n.VectorMatching != nil {
			m := n.VectorMatching
			vm = fmt.Sprintf("( vm %d %s %s %s %s %s )", int(m.Card), b01(m.On), sxStrings("l", m.MatchingLabels), sxStrings("l", m.Include),
				sxFill(m.FillValues.LHS), sxFill(m.FillValues.RHS))
		}
		return "( bin " + itemName(n.Op) + " " + b01(n.ReturnBool) + " " + vm + " " + sx(n.LHS) + " " + sx(n.RHS) + " )"
	case *parser.UnaryExpr:
		return "( un " + itemName(n.Op) + " " + sx(n.Expr) + " )"
	case *parser.ParenExpr:
		return "( paren " + sx(n.Expr) + " )"
	case *parser.StepInvariantExpr:
		return "( stepinv " + sx(n.Expr) + " )"
	case *parser.DurationExpr:
		return "( dur " + itemName(n.Op) + " " + b01(n.Wrapped) + " " + sxOpt(n.LHS) + " " + sxOpt(n.RHS) + " )"
	}
	return fmt.Sprintf("( unknown %s )", hx(fmt.Sprintf("%T", e)))
}

// ---------- running one op ----------

func optsOf(flags string) (parser.Options, bool) {
	if len(flags) != 4 || strings.Trim(flags, "01") != "" {
		return parser.Options{}, false
	}
	return parser.Options{
		EnableExperimentalFunctions:  flags[0] == '1',
		ExperimentalDurationExpr:     flags[1] == '1',
		EnableExtendedRangeSelectors: flags[2] == '1',
		EnableBinopFillModifiers:     flags[3] == '1',
	}, true
}

// parse classifies the outcome of ParseExpr: "ok", "err" (ParseErrors), "internal …".
func parse(p parser.Parser, text string) (e parser.Expr, class string) {
	var err error
	// ErrUnexpected is accompanied by a stack dump on stderr; silence it (the class is reported).
	old := os.Stderr
	devnull, _ := os.OpenFile(os.DevNull, os.O_WRONLY, 0)
	if devnull != nil {
		os.Stderr = devnull
	}
	panicked, val := h.Try(func() { e, err = p.ParseExpr(text) })
	os.Stderr = old
	if devnull != nil {
		devnull.Close()
	}
	switch {
	case panicked:
		return nil, "internal panic " + hx(fmt.Sprint(val))
	case err == nil:
		if e == nil {
			return nil, "internal nil-expr-without-error"
		}
		return e, "ok"
	case errors.Is(err, parser.ErrUnexpected):
		return nil, "internal errunexpected"
	}
	var pes parser.ParseErrors
	if errors.As(err, &pes) {
		return nil, "err"
	}
	return nil, "internal foreign-error " + hx(err.Error())
}

func runRT(flags, text string) string {
	opts, ok := optsOf(flags)
	if !ok {
		return "bad"
	}
	p := parser.NewParser(opts)
	e, class := parse(p, text)
	if class != "ok" {
		return class
	}
	var printed, pretty, ast string
	if panicked, val := h.Try(func() {
		ast = sx(e)
		printed = e.String()
		pretty = parser.Prettify(e)
	}); panicked {
		return "internal print-panic " + hx(fmt.Sprint(val))
	}
	reparse := func(t string) (string, string) {
		e2, c2 := parse(p, t)
		if c2 != "ok" {
			if c2 == "err" {
				return "err", "-"
			}
			return "( " + c2 + " )", "-"
		}
		var a2, p2 string
		if panicked, _ := h.Try(func() { a2 = sx(e2); p2 = e2.String() }); panicked {
			return "( internal print-panic )", "-"
		}
		return a2, hx(p2)
	}
	a2, p2 := reparse(printed)
	a3, p3 := reparse(pretty)
	return "ok " + ast + " ; " + hx(printed) + " ; " + a2 + " ; " + p2 + " ; " + hx(pretty) + " ; " + a3 + " ; " + p3
}

func runOp(op string) string {
	f := strings.Fields(op)
	if len(f) == 3 && f[0] == "rt" {
		return runRT(f[1], string(h.UnHex(f[2])))
	}
	return "bad"
}

// ---------- generator ----------

type gen struct {
	r *h.Rng
	// feature use of the text being generated (so that flag choice can favour accepting combos)
	useExp, useDur, useExt, useFill bool
	noInf                            bool
	trig                             bool // this case may contain known-finding triggers
}

func (g *gen) pick(xs ...string) string { return xs[g.r.Intn(len(xs))] }

func (g *gen) sp() string {
	switch g.r.Intn(12) {
	case 0:
		return "  "
	case 1:
		return "\t"
	case 2:
		return "\n"
	case 3:
		return " # c\n"
	}
	return " "
}

// osp: optional space
func (g *gen) osp() string {
	if g.r.Chance(70) {
		return ""
	}
	return g.sp()
}

var metricNames = []string{"foo", "bar", "up", "http_requests_total", "a:b", ":x", "node_cpu:rate5m", "m1", "_x", "x_"}

// keywords usable as metric identifiers (metric_identifier rule)
var kwMetric = []string{"sum", "avg", "count", "min", "max", "group", "stddev", "stdvar", "topk", "bottomk", "count_values",
	"quantile", "limitk", "limit_ratio", "by", "without", "offset", "and", "or", "unless", "start", "end", "step", "range",
	"anchored", "smoothed", "max_of", "min_of", "fill", "fill_left", "fill_right", "Sum", "OFFSET"}

// identifiers that lex specially and are NOT metric identifiers
var kwOther = []string{"on", "ignoring", "group_left", "group_right", "bool", "atan2", "inf", "nan", "Inf", "NaN"}

var labelNames = []string{"job", "instance", "le", "a", "b", "__name__", "code", "on", "by", "bool", "sum", "offset", "group_left",
	"ignoring", "and", "atan2", "start", "step", "fill", "anchored", "max_of", "x_1", "_", "without", "count_values", "inf", "nan", "NaN"}

var utf8Names = []string{"my.label", "http.status", "with space", "ünï", "日本", "a-b", "0start", "q\"uote", "back\\slash", "tab\there",
	"é", "nb\u00a0sp", "zw\u200bsp", "emoji😀", "ÿ", "{", "new\nline"}

var labelValues = []string{"", "a", "api-server", "5..", ".*", ".+", "a|b", "foo.*", "x\"y", "back\\slash", "it's", "`tick`", "new\nline",
	"tab\t", "ünï", "日本語", "😀", "\x00", "\x7f", "nb\u00a0", " ", "\ufeff", "a{b}", "1", "[a-z]+", "(a|b)c?", "é"}

func (g *gen) quoteStyle(s string) string {
	// render a Go string as a PromQL string literal in one of the three quote styles
	switch g.r.Intn(4) {
	case 0:
		if !strings.ContainsAny(s, "`") && isValidUTF8NoBad(s) {
			return "`" + s + "`"
		}
	case 1:
		q := strconv.Quote(s)
		q = q[1 : len(q)-1]
		q = strings.ReplaceAll(q, `\"`, `"`)
		q = strings.ReplaceAll(q, `'`, `\'`)
		return "'" + q + "'"
	case 2:
		// explicit escapes of several kinds
		var b strings.Builder
		b.WriteByte('"')
		for _, c := range []byte(s) {
			switch g.r.Intn(6) {
			case 0:
				fmt.Fprintf(&b, `\x%02x`, c)
			case 1:
				fmt.Fprintf(&b, `\%03o`, c)
			default:
				if c < 0x80 && c >= 0x20 && c != '"' && c != '\\' && c != 0x7f {
					b.WriteByte(c)
				} else {
					fmt.Fprintf(&b, `\x%02x`, c)
				}
			}
		}
		b.WriteByte('"')
		return b.String()
	}
	return strconv.Quote(s)
}

func isValidUTF8NoBad(s string) bool {
	for _, r := range s {
		if r == 0xFFFD || r == '\r' {
			return false
		}
	}
	return true
}

func (g *gen) labelName() string {
	if g.r.Chance(12) {
		return g.quoteStyle(h.Pick(g.r, utf8Names))
	}
	if g.r.Chance(8) {
		return g.quoteStyle(h.Pick(g.r, labelNames))
	}
	return h.Pick(g.r, labelNames)
}

func (g *gen) groupingLabels() string {
	n := g.r.Intn(4)
	var parts []string
	for i := 0; i < n; i++ {
		l := g.labelName()
		if lc := strings.ToLower(strings.Trim(l, "`'\"")); (lc == "inf" || lc == "nan") && !g.trig {
			l = "job"
		}
		parts = append(parts, g.osp()+l+g.osp())
	}
	s := strings.Join(parts, ",")
	if n > 0 && g.r.Chance(10) {
		s += ","
	}
	return "(" + s + ")"
}

func (g *gen) matcher() string {
	op := g.pick("=", "=", "!=", "=~", "!~")
	val := h.Pick(g.r, labelValues)
	if op == "=~" || op == "!~" {
		val = g.pick(".*", ".+", "a|b", "foo.*", "[a-z]+", "(a|b)c?", "5..", "", "x", "a\\.b", "\\d+")
	}
	name := h.Pick(g.r, labelNames)
	if g.r.Chance(15) {
		name = g.quoteStyle(h.Pick(g.r, utf8Names))
	} else if g.r.Chance(5) {
		name = g.quoteStyle(name)
	}
	return g.osp() + name + g.osp() + op + g.osp() + g.quoteStyle(val) + g.osp()
}

func (g *gen) metricIdent() string {
	switch {
	case g.r.Chance(75):
		return h.Pick(g.r, metricNames)
	default:
		return h.Pick(g.r, kwMetric)
	}
}

// bare selector (no modifiers)
func (g *gen) selectorCore() string {
	n := g.r.Intn(4)
	var ms []string
	for i := 0; i < n; i++ {
		ms = append(ms, g.matcher())
	}
	switch g.r.Intn(10) {
	case 0, 1, 2, 3:
		return g.metricIdent()
	case 4, 5, 6:
		s := strings.Join(ms, ",")
		if n > 0 && g.r.Chance(10) {
			s += ","
		}
		return g.metricIdent() + g.osp() + "{" + s + "}"
	case 7:
		// quoted metric name inside braces
		nm := g.quoteStyle(g.pick("foo", "my.metric", "http.requests", "sum", "ü", "with space", "a:b"))
		at := g.r.Intn(len(ms) + 1)
		ms2 := append(append(append([]string{}, ms[:at]...), g.osp()+nm+g.osp()), ms[at:]...)
		return "{" + strings.Join(ms2, ",") + "}"
	case 8:
		// __name__ matcher forms
		op := g.pick("=", "=", "!=", "=~")
		ms = append(ms, "__name__"+op+g.quoteStyle(g.pick("foo", "", "a b", "bar")))
		return "{" + strings.Join(ms, ",") + "}"
	default:
		if n == 0 {
			ms = append(ms, g.pick(`a="b"`, `job!=""`, `x=~".+"`, `a=""`))
		}
		return "{" + strings.Join(ms, ",") + "}"
	}
}

var durPool = []string{"5m", "1h", "30s", "1ms", "1y", "2w", "3d", "1h30m", "1y2w3d4h5m6s7ms", "0s", "90m", "1000ms", "60s", "24h", "7d", "365d",
	"1", "5", "0.5", "1.5", "300", "1e3", "0x10", "1_000", "2562047h", "292y", "0.001", "0.0004", "1.0005", "86400", ".5", "1s1ms", "10s500ms"}

var lossy = map[string]bool{"0.0004": true, "1.0005": true, "1s1ms": true, "1y2w3d4h5m6s7ms": true}

func (g *gen) durLit() string {
	for {
		s := h.Pick(g.r, durPool)
		if lossy[s] && !g.trig {
			continue
		}
		return s
	}
}

// duration expression for [...] / offset positions (depth-limited)
func (g *gen) durExpr(d int) string {
	if d <= 0 || g.r.Chance(35) {
		switch g.r.Intn(8) {
		case 0:
			g.useDur = true
			return "step()"
		case 1:
			g.useDur = true
			return "range()"
		}
		return g.durLit()
	}
	g.useDur = true
	switch g.r.Intn(7) {
	case 0:
		return g.durExpr(d-1) + g.osp() + g.pick("+", "-", "*", "/", "%", "^") + g.osp() + g.durExpr(d-1)
	case 1:
		return "(" + g.osp() + g.durExpr(d-1) + g.osp() + ")"
	case 2:
		return g.pick("min_of", "max_of") + g.osp() + "(" + g.durExpr(d-1) + "," + g.osp() + g.durExpr(d-1) + ")"
	case 3:
		return g.pick("-", "+") + g.durExpr(d-1)
	case 4:
		if g.trig {
			return g.pick("-", "+") + "(" + g.durExpr(d-1) + ")"
		}
		return "-(" + g.durExpr(d-1) + ")"
	case 5:
		return g.durExpr(d-1) + " " + g.pick("+", "-", "*") + " " + g.durLit()
	default:
		return g.pick("step()", "range()") + g.osp() + g.pick("+", "-", "*", "/") + g.osp() + g.durLit()
	}
}

func (g *gen) rangeArg() string {
	if g.r.Chance(85) {
		return g.pick("5m", "1h", "30s", "1ms", "1h30m", "1y", "2w", "300", "0.5", "1.5", "1e3", "90m", "10s500ms", "5", "0x10", "1000ms", "2562047h")
	}
	return g.durExpr(2)
}

func (g *gen) offsetArg() string {
	if g.r.Chance(80) {
		return g.pick("", "", "-", "+") + g.durLit()
	}
	return g.durExpr(2)
}

func (g *gen) atArg() string {
	switch g.r.Intn(8) {
	case 0:
		return "start()"
	case 1:
		return "end()"
	case 2:
		return "start ( )"
	}
	return g.pick("", "", "-", "+") + g.pick("0", "1", "1.5", "1234.5678", "1603774568", "0.001", "0.0005", "1e3", "1e10", "5m", "0x10",
		"9223372036854775", "1.2345", "2.5e-3", "0.0015", "0.0025", "123456789.1235", "Inf", "NaN", "1e19")
}

// modifiers: any order of offset / @ / anchored|smoothed
func (g *gen) modifiers(allowExt bool) string {
	var mods []string
	if g.r.Chance(35) {
		mods = append(mods, "offset"+g.sp()+g.offsetArg())
	}
	if g.r.Chance(30) {
		mods = append(mods, "@"+g.osp()+g.atArg())
	}
	if allowExt && g.r.Chance(15) {
		g.useExt = true
		mods = append(mods, g.pick("anchored", "smoothed"))
	}
	if g.r.Chance(4) {
		mods = append(mods, "offset "+g.offsetArg())
	}
	for i := len(mods) - 1; i > 0; i-- {
		j := g.r.Intn(i + 1)
		mods[i], mods[j] = mods[j], mods[i]
	}
	s := ""
	for _, m := range mods {
		s += g.sp() + m
	}
	return s
}

func (g *gen) vsel() string { return g.selectorCore() + g.modifiers(true) }

func (g *gen) matrix(d int) string {
	if d > 0 && g.r.Chance(35) {
		// subquery
		step := ""
		if g.r.Chance(50) {
			step = g.osp() + g.rangeArg()
		}
		return g.vec(d-1, true) + g.osp() + "[" + g.osp() + g.rangeArg() + g.osp() + ":" + step + g.osp() + "]" + g.modifiers(g.r.Chance(5))
	}
	core := g.selectorCore()
	if g.r.Chance(6) {
		core += g.modifiers(true) // rejected: modifiers before range (except anchored/smoothed)
	}
	return core + g.osp() + "[" + g.osp() + g.rangeArg() + g.osp() + "]" + g.modifiers(true)
}

var numPool = []string{"0", "1", "2", "3.14", "1e3", "1E-3", "0x1F", "0X_1f", "1_000", "1_0.5_0", ".5", "5.", "Inf", "inf", "INF", "NaN", "nan",
	"1e308", "1e-320", "4.9e-324", "0.1", "123456789012345678", "9007199254740993", "1e21", "1e22", "0.000001", "017", "5m", "1h30m", "1ms", "1.7976931348623157e308",
	"2.2250738585072014e-308", "100", "0.30000000000000004", "1e23", "5e-324", "0x7fffffffffffffff", "0xffffffffffffffff", "18446744073709551616", "1d", "1y", "+1", "-1", "-0", "-Inf", "+Inf", "-0x10", "- 5", "-5m"}

func (g *gen) number() string {
	for {
		s := h.Pick(g.r, numPool)
		if g.noInf && strings.Contains(strings.ToLower(s), "inf") {
			continue
		}
		return s
	}
}

var binArith = []string{"+", "-", "*", "/", "%", "^", "atan2"}
var binCmp = []string{"==", "!=", "<", "<=", ">", ">="}
var binSet = []string{"and", "or", "unless"}

func (g *gen) scalar(d int) string {
	if d <= 0 || g.r.Chance(40) {
		switch g.r.Intn(12) {
		case 0:
			return "time()"
		case 1:
			return "pi ( )"
		case 2:
			if d > 0 {
				return "scalar(" + g.vec(d-1, false) + ")"
			}
		}
		return g.number()
	}
	switch g.r.Intn(8) {
	case 0, 1, 2:
		return g.scalar(d-1) + g.sp() + h.Pick(g.r, binArith) + g.sp() + g.scalar(d-1)
	case 3:
		return g.scalar(d-1) + g.sp() + h.Pick(g.r, binCmp) + g.osp() + g.pick("bool", "bool", "bool", "BOOL", "") + g.sp() + g.scalar(d-1)
	case 4, 5:
		return "(" + g.osp() + g.scalar(d-1) + g.osp() + ")"
	case 6:
		return g.pick("-", "+", "- ", "--", "-+") + g.scalar(d-1)
	default:
		return g.scalar(d-1) + g.pick("^", " ^ ", "*", "-", " - ", "+") + g.scalar(d-1)
	}
}

func (g *gen) str() string {
	return g.quoteStyle(h.Pick(g.r, labelValues))
}

func (g *gen) binMod(cmp, set bool) string {
	s := ""
	if cmp && g.r.Chance(40) {
		s += g.sp() + "bool"
	}
	if g.r.Chance(45) {
		s += g.sp() + g.pick("on", "ignoring", "ON", "Ignoring") + g.osp() + g.groupingLabels()
		if !set && g.r.Chance(40) || g.r.Chance(3) {
			s += g.sp() + g.pick("group_left", "group_right")
			if g.r.Chance(60) {
				s += g.osp() + g.groupingLabels()
			}
		}
	}
	if !set && g.r.Chance(18) || g.r.Chance(2) {
		g.useFill = true
		fv := func() string {
			return "(" + g.osp() + g.pick("", "", "-", "+") + g.pick("0", "1", "1.5", "Inf", "NaN", "5m", "0x10", "1e3", "0.1") + g.osp() + ")"
		}
		switch g.r.Intn(5) {
		case 0:
			s += g.sp() + "fill" + g.osp() + fv()
		case 1:
			s += g.sp() + "fill_left" + g.osp() + fv()
		case 2:
			s += g.sp() + "fill_right" + g.osp() + fv()
		case 3:
			s += g.sp() + "fill_left" + fv() + g.sp() + "fill_right" + fv()
		default:
			s += g.sp() + "fill_right" + fv() + g.sp() + "fill_left" + fv()
		}
	}
	return s
}

var vecFuncs = []string{"abs", "ceil", "floor", "exp", "ln", "sort", "sort_desc", "timestamp", "absent", "sgn", "deg", "histogram_count", "histogram_avg"}
var matFuncs = []string{"rate", "irate", "increase", "delta", "avg_over_time", "sum_over_time", "max_over_time", "last_over_time", "changes", "resets", "absent_over_time", "present_over_time", "deriv", "stddev_over_time"}
var expMatFuncs = []string{"mad_over_time", "ts_of_max_over_time", "ts_of_min_over_time", "ts_of_last_over_time", "first_over_time", "ts_of_first_over_time"}

func (g *gen) call(d int) string {
	sep := func() string { return g.osp() + "," + g.osp() }
	switch g.r.Intn(16) {
	case 0, 1, 2:
		return h.Pick(g.r, vecFuncs) + g.osp() + "(" + g.osp() + g.vec(d-1, false) + g.osp() + ")"
	case 3, 4, 5, 6:
		return h.Pick(g.r, matFuncs) + "(" + g.matrix(d-1) + ")"
	case 7:
		return "label_replace(" + g.vec(d-1, false) + sep() + g.str() + sep() + g.str() + sep() + g.str() + sep() + g.str() + ")"
	case 8:
		n := g.r.Intn(3)
		s := "label_join(" + g.vec(d-1, false) + sep() + g.str() + sep() + g.str()
		for i := 0; i < n; i++ {
			s += sep() + g.str()
		}
		return s + ")"
	case 9:
		return g.pick("clamp_max", "clamp_min") + "(" + g.vec(d-1, false) + sep() + g.scalar(d-1) + ")"
	case 10:
		return "round(" + g.vec(d-1, false) + g.pick("", ", "+g.scalar(0)) + ")"
	case 11:
		return "histogram_quantile" + "(" + g.scalar(d-1) + sep() + g.vec(d-1, false) + ")"
	case 12:
		return g.pick("quantile_over_time("+g.scalar(0)+", "+g.matrix(d-1)+")", "predict_linear("+g.matrix(d-1)+", "+g.scalar(0)+")",
			"holt_winters_unknown(x)", "vector("+g.scalar(d-1)+")", "day_of_month()", "hour("+g.vec(d-1, false)+")", "year()", "absent(nonexistent)")
	case 13:
		g.useExp = true
		return h.Pick(g.r, expMatFuncs) + "(" + g.matrix(d-1) + ")"
	case 14:
		g.useExp = true
		return g.pick("sort_by_label", "sort_by_label_desc") + "(" + g.vec(d-1, false) + sep() + g.str() + g.pick("", ", "+g.str()) + ")"
	default:
		g.useExp = true
		return g.pick("info("+g.vec(d-1, false)+")", "info("+g.vec(d-1, false)+", {"+g.matcher()+"})", "info(foo, bar)", "double_exponential_smoothing("+g.matrix(d-1)+", 0.5, 0.1)")
	}
}

var aggOps = []string{"sum", "avg", "count", "min", "max", "group", "stddev", "stdvar", "SUM", "Avg"}
var aggParam = []string{"topk", "bottomk", "quantile", "count_values", "limitk", "limit_ratio"}

func (g *gen) agg(d int) string {
	mod := ""
	if g.r.Chance(60) {
		mod = g.pick("by", "without", "BY", "Without") + g.osp() + g.groupingLabels()
	}
	var op, args string
	if g.r.Chance(35) {
		op = h.Pick(g.r, aggParam)
		switch op {
		case "count_values":
			args = g.str() + g.osp() + "," + g.osp() + g.vec(d-1, false)
		case "limitk", "limit_ratio":
			g.useExp = true
			args = g.scalar(d-1) + "," + g.sp() + g.vec(d-1, false)
		default:
			args = g.scalar(d-1) + "," + g.sp() + g.vec(d-1, false)
		}
	} else {
		op = h.Pick(g.r, aggOps)
		args = g.vec(d-1, false)
	}
	body := "(" + g.osp() + args + g.osp() + ")"
	switch {
	case mod == "":
		return op + g.osp() + body
	case g.r.Bool():
		return op + g.sp() + mod + g.osp() + body
	default:
		return op + g.osp() + body + g.osp() + mod
	}
}

// vec generates an instant-vector expression; sub = operand position of a subquery (needs parens for
// binary expressions to mean the whole expression).
func (g *gen) vec(d int, sub bool) string {
	if d <= 0 || g.r.Chance(25) {
		return g.vsel()
	}
	switch g.r.Intn(14) {
	case 0, 1:
		return g.agg(d)
	case 2, 3, 4:
		return g.call(d)
	case 5:
		s := g.vec(d-1, false) + g.sp() + h.Pick(g.r, binArith) + g.binMod(false, false) + g.sp() + g.vec(d-1, false)
		if sub {
			return "(" + s + ")"
		}
		return s
	case 6:
		s := g.vec(d-1, false) + g.sp() + h.Pick(g.r, binCmp) + g.binMod(true, false) + g.sp() + g.vec(d-1, false)
		if sub {
			return "(" + s + ")"
		}
		return s
	case 7:
		s := g.vec(d-1, false) + g.sp() + h.Pick(g.r, binSet) + g.binMod(false, true) + g.sp() + g.vec(d-1, false)
		if sub {
			return "(" + s + ")"
		}
		return s
	case 8:
		op := h.Pick(g.r, append(append([]string{}, binArith...), binCmp...))
		b := ""
		if g.r.Chance(30) {
			b = " bool"
		}
		var s string
		if g.r.Bool() {
			s = g.vec(d-1, false) + g.sp() + op + b + g.sp() + g.scalar(d-1)
		} else {
			s = g.scalar(d-1) + g.sp() + op + b + g.sp() + g.vec(d-1, false)
		}
		if sub {
			return "(" + s + ")"
		}
		return s
	case 9, 10:
		return "(" + g.osp() + g.vec(d-1, false) + g.osp() + ")"
	case 11:
		return g.pick("-", "+", "- ") + g.vec(d-1, true)
	case 12:
		// tight operators without spaces / trim operators
		s := g.vec(d-1, false) + g.pick("*", "/", "-", "+", "^", "</", ">/", " </ ", "==", "> bool ") + g.vec(d-1, false)
		if sub {
			return "(" + s + ")"
		}
		return s
	default:
		return g.vsel()
	}
}

func (g *gen) expr(d int) string {
	switch g.r.Intn(20) {
	case 0, 1:
		return g.scalar(d)
	case 2:
		return g.matrix(d)
	case 3:
		return g.str()
	case 4:
		// long expression to force Prettify to split
		n := 3 + g.r.Intn(4)
		parts := make([]string, n)
		for i := range parts {
			parts[i] = g.vec(d, false)
		}
		return strings.Join(parts, g.pick(" + ", " * ", " and ", " or ", " / on(job) group_left ", " == bool "))
	case 5:
		// precedence chains
		n := 2 + g.r.Intn(5)
		s := g.atom()
		for i := 0; i < n; i++ {
			op := h.Pick(g.r, append(append(append([]string{}, binArith...), "== bool", "< bool", "and", "or", "unless"), binArith...))
			s += " " + op + " " + g.pick("", "", "-", "+") + g.atom()
		}
		return s
	case 6:
		return g.durExprTop()
	}
	return g.vec(d, false)
}

// top-level duration-expression-looking text (the grammar has `expr : duration_expr`)
func (g *gen) durExprTop() string {
	return g.pick("step()", "range()", "min_of(1, 2)", "max_of(5m, step())", "1 + step()", "(5m)", "-(1)", "-(step())", "(1) + 2", "(1 + 2)",
		"1 + 2 * 3", "2 ^ 3 ^ 2", "-2 ^ 2", "(1) ^ (2)", "step() * 2", "(step())", "1 % 0", "1 / 0", "5m / 0", "foo[5m] offset (1)", "foo offset -(5m)",
		"foo offset -2^2", "foo offset 1 + 2", "foo offset 5m * 2", "foo[5m*2]", "foo[(5m)]", "foo[-5m]", "foo[+5m]", "foo[0]", "foo[5m:0]", "foo[5m:-1s]",
		"foo[step():range()]", "foo[1:2]", "foo[(1):(2)]", "foo offset (5m)", "foo offset ((5m))", "foo offset -(-(5m))", "foo[5m] offset -min_of(1, 2)",
		"foo[1 + 2]", "foo[2 ^ 3 ^ 2]", "foo[-2 ^ 2]", "foo[(1 + 2) * 3]", "foo[1 - 2 - 3]", "foo[1 - (2 - 3)]", "foo[10 % 3]", "foo[10 / 0]", "foo[10 % 0]",
		"foo[min_of(5m, 1h):max_of(1, 2)]", "foo[- step()]", "foo[-(step())]", "foo[+(step())]", "foo[+step()]", "foo offset +step()", "foo offset -range()",
		"foo offset +(5m)", "foo offset -(5m + 1)", "foo offset (5m) * 2", "foo offset step() + 1", "foo offset max_of(1, 2) ^ 2", "foo[5m] @ 1 offset (2)")
}

func (g *gen) atom() string {
	switch g.r.Intn(6) {
	case 0, 1:
		return g.number()
	case 2:
		return "(" + g.scalar(1) + ")"
	case 3:
		return "time()"
	}
	return g.pick("foo", "bar", "up{job=\"a\"}", "sum(x)", "rate(x[5m])", "foo offset 5m", "foo @ 1", "-foo", "(foo)")
}

var mutAlphabet = []string{" ", "(", ")", "[", "]", "{", "}", ",", ":", "\"", "'", "`", "\\", "+", "-", "*", "/", "%", "^", "=", "!", "~", "<", ">", "@", "#", "\n",
	".", "_", "0", "1", "9", "a", "e", "x", "s", "m", "h", "d", "w", "y", "é", "\x00", "\xff", "$", "&", "|", ";", "?",
	" offset ", " bool ", " on ", " by ", " and ", " or ", " atan2 ", "step()", "range()", "start()", "end()", " @ ", " inf ", " nan ", "0x", "1e", "5m", "1h", " fill(1) ",
	" anchored", " smoothed", " group_left ", " ignoring() ", " without(a) ", "sum", "rate", "()", "[5m]", "[5m:]", "{a=\"b\"}", "min_of(", ", "}

func (g *gen) mutate(s string) string {
	b := []byte(s)
	n := 1 + g.r.Intn(3)
	for i := 0; i < n; i++ {
		if len(b) == 0 {
			b = []byte(h.Pick(g.r, mutAlphabet))
			continue
		}
		p := g.r.Intn(len(b) + 1)
		switch g.r.Intn(7) {
		case 0: // delete one byte
			if p < len(b) {
				b = append(b[:p:p], b[p+1:]...)
			}
		case 1: // delete a span
			q := p + g.r.Intn(6)
			if q > len(b) {
				q = len(b)
			}
			b = append(b[:p:p], b[q:]...)
		case 2, 3: // insert
			ins := h.Pick(g.r, mutAlphabet)
			b = append(b[:p:p], append([]byte(ins), b[p:]...)...)
		case 4: // replace one byte
			if p < len(b) {
				ins := h.Pick(g.r, mutAlphabet)
				b = append(b[:p:p], append([]byte(ins), b[p+1:]...)...)
			}
		case 5: // truncate
			b = b[:p]
		default: // duplicate a span
			q := p + g.r.Intn(8)
			if q > len(b) {
				q = len(b)
			}
			b = append(b[:q:q], append(append([]byte{}, b[p:q]...), b[q:]...)...)
		}
	}
	return string(b)
}

func (g *gen) randomString() string {
	n := 1 + g.r.Intn(8)
	var b strings.Builder
	for i := 0; i < n; i++ {
		switch g.r.Intn(4) {
		case 0:
			b.WriteString(h.Pick(g.r, metricNames))
		case 1:
			b.WriteString(h.Pick(g.r, numPool))
		default:
			b.WriteString(h.Pick(g.r, mutAlphabet))
		}
	}
	return b.String()
}

func flagStr(i int) string {
	return fmt.Sprintf("%04b", i&15)
}

// ---------- main ----------

func main() {
	c := h.Init()
	if c.Replay != "" {
		for _, cs := range c.ReplayCases() {
			c.Case(strings.TrimPrefix(cs[0], "case "))
			for _, op := range cs[1:] {
				c.Op(op, runOp(op))
			}
		}
		c.Finish()
		return
	}
	noInf := c.Extra["noinf"] == "1"
	for i := 0; i < c.N; i++ {
		g := &gen{r: c.Rng, noInf: noInf, trig: c.Rng.Chance(8)}
		kind := "gen"
		depth := 1 + c.Rng.Intn(4)
		text := g.expr(depth)
		switch r := c.Rng.Intn(10); {
		case r < 2:
			kind = "mut"
			text = g.mutate(text)
		case r < 3:
			kind = "rnd"
			text = g.randomString()
		}
		c.Case(fmt.Sprintf("%s%d", kind, i))
		// flag combinations: the one matching the features used, all-on, all-off and a random one; 1 in 8 cases all 16
		want := 0
		if g.useExp {
			want |= 8
		}
		if g.useDur {
			want |= 4
		}
		if g.useExt {
			want |= 2
		}
		if g.useFill {
			want |= 1
		}
		var combos []int
		if c.Rng.Intn(8) == 0 {
			for k := 0; k < 16; k++ {
				combos = append(combos, k)
			}
		} else {
			set := map[int]bool{want: true, 15: true, 0: true, c.Rng.Intn(16): true}
			for k := range set {
				combos = append(combos, k)
			}
			sort.Ints(combos)
		}
		okSeen := false
		for _, k := range combos {
			op := "rt " + flagStr(k) + " " + hx(text)
			out := runOp(op)
			c.Op(op, out)
			cls := strings.SplitN(out, " ", 2)[0]
			c.Count(kind + ":" + cls)
			if cls == "ok" {
				okSeen = true
				f := strings.Split(out, " ; ")
				if len(f) == 7 {
					if f[2] == "err" || strings.HasPrefix(f[2], "( internal") {
						c.Count("reparse-failed")
					}
					if strings.Contains(string(h.UnHex(f[4])), "\n") {
						c.Count("pretty-split")
					}
					for _, tag := range []string{"( vs ", "( mat ", "( sub ", "( call ", "( agg ", "( bin ", "( un ", "( paren ", "( dur ", "( num ", "( str ", "( offe ", "( ts ", "( vm "} {
						if strings.Contains(f[0], tag) {
							c.Count("node:" + strings.Trim(tag, "( "))
						}
					}
				}
			}
		}
		if okSeen {
			c.NonTrivial(text)
		}
	}
	c.Finish()
}
