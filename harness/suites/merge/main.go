// Suite merge (C19): storage.NewMergeSeriesSet / ChainedSeriesMerge / chainSampleIterator driven with
// generated Next/Seek scripts, and storage.NewMergeChunkSeriesSet with the compacting and the
// concatenating chunk series mergers, on 0-6 generated input sets. See lean/PromModel/Suites/MergeSuite.lean
// for the op grammar.
package main

import (
	"errors"
	"fmt"
	"hash/fnv"
	"math"
	"sort"
	"strconv"
	"strings"

	"github.com/prometheus/prometheus/model/histogram"
	"github.com/prometheus/prometheus/model/labels"
	"github.com/prometheus/prometheus/model/value"
	"github.com/prometheus/prometheus/storage"
	"github.com/prometheus/prometheus/tsdb/chunkenc"
	"github.com/prometheus/prometheus/tsdb/chunks"
	"github.com/prometheus/prometheus/util/annotations"

	"verif/harness/h"
)

// ---------------------------------------------------------------- samples

type smp struct {
	t       int64
	kind    byte // 'f', 'h', 'H'
	payload uint64
}

func (s smp) String() string { return fmt.Sprintf("%d:%c:%d", s.t, s.kind, s.payload) }

// Histogram payloads: payload = 4*body + counterResetHint,
// body = zeroCount + b0<<20 + b1<<24 + b2<<28 + schema<<32 + stale<<33 (zeroCount < 2^20, three positive
// buckets b_i < 16 at indexes 0..2, present iff non-zero, schema 0|1); Count = zeroCount+b0+b1+b2 = Sum;
// a stale marker is {Sum: StaleNaN}. Bits from 40 up flag a decoded histogram outside this family.
const (
	hbSchema = uint64(1) << 32
	hbStale  = uint64(1) << 33
	hbBad    = uint64(1) << 40
)

func hbParts(b uint64) (z uint64, spans []histogram.Span, cs []uint64, cnt uint64) {
	z = b & (1<<20 - 1)
	cnt = z
	last := -1
	for i := 0; i < 3; i++ {
		c := (b >> (20 + 4*uint(i))) & 15
		if c == 0 {
			continue
		}
		if last >= 0 && last == i-1 {
			spans[len(spans)-1].Length++
		} else {
			off := int32(i)
			if last >= 0 {
				off = int32(i - last - 1)
			}
			spans = append(spans, histogram.Span{Offset: off, Length: 1})
		}
		cs = append(cs, c)
		cnt += c
		last = i
	}
	return z, spans, cs, cnt
}

func mkHist(p uint64) *histogram.Histogram {
	b, hint := p/4, histogram.CounterResetHint(p%4)
	if b&hbStale != 0 {
		return &histogram.Histogram{CounterResetHint: hint, Sum: math.Float64frombits(value.StaleNaN)}
	}
	z, spans, cs, cnt := hbParts(b)
	var deltas []int64
	prev := int64(0)
	for _, c := range cs {
		deltas = append(deltas, int64(c)-prev)
		prev = int64(c)
	}
	return &histogram.Histogram{
		CounterResetHint: hint,
		Schema:           int32(b >> 32 & 1), ZeroThreshold: 0.001, ZeroCount: z, Count: cnt, Sum: float64(cnt),
		PositiveSpans: spans, PositiveBuckets: deltas,
	}
}

func mkFHist(p uint64) *histogram.FloatHistogram {
	b, hint := p/4, histogram.CounterResetHint(p%4)
	if b&hbStale != 0 {
		return &histogram.FloatHistogram{CounterResetHint: hint, Sum: math.Float64frombits(value.StaleNaN)}
	}
	z, spans, cs, cnt := hbParts(b)
	var bs []float64
	for _, c := range cs {
		bs = append(bs, float64(c))
	}
	return &histogram.FloatHistogram{
		CounterResetHint: hint,
		Schema:           int32(b >> 32 & 1), ZeroThreshold: 0.001, ZeroCount: float64(z), Count: float64(cnt), Sum: float64(cnt),
		PositiveSpans: spans, PositiveBuckets: bs,
	}
}

// hbEncode renders a decoded histogram (absolute bucket counts) back into a payload; empty buckets that a
// recoded chunk added to the layout are dropped (present iff non-zero).
func hbEncode(hint histogram.CounterResetHint, stale bool, schema int32, zth, z, cnt, sum float64, spans []histogram.Span, abs []float64, nneg int) uint64 {
	if stale {
		return hbStale*4 + uint64(hint)
	}
	var b uint64
	bad := false
	if z < 0 || z >= 1<<20 || z != math.Trunc(z) {
		bad = true
	} else {
		b = uint64(z)
	}
	total := z
	idx, k := int32(0), 0
	for _, sp := range spans {
		idx += sp.Offset
		for j := uint32(0); j < sp.Length; j++ {
			if k >= len(abs) {
				bad = true
				break
			}
			v := abs[k]
			k++
			if v != 0 {
				if idx < 0 || idx > 2 || v < 0 || v > 15 || v != math.Trunc(v) {
					bad = true
				} else {
					b |= uint64(v) << (20 + 4*uint(idx))
				}
			}
			total += v
			idx++
		}
	}
	if k != len(abs) || nneg != 0 || schema < 0 || schema > 1 || zth != 0.001 || cnt != total || sum != total {
		bad = true
	}
	if schema == 1 {
		b |= hbSchema
	}
	if bad {
		b |= hbBad
	}
	return b*4 + uint64(hint)
}

func histPayload(hh *histogram.Histogram) uint64 {
	abs := make([]float64, len(hh.PositiveBuckets))
	cur := int64(0)
	for i, d := range hh.PositiveBuckets {
		cur += d
		abs[i] = float64(cur)
	}
	return hbEncode(hh.CounterResetHint, value.IsStaleNaN(hh.Sum), hh.Schema, hh.ZeroThreshold, float64(hh.ZeroCount), float64(hh.Count), hh.Sum,
		hh.PositiveSpans, abs, len(hh.NegativeSpans)+len(hh.NegativeBuckets))
}

func fhistPayload(fh *histogram.FloatHistogram) uint64 {
	return hbEncode(fh.CounterResetHint, value.IsStaleNaN(fh.Sum), fh.Schema, fh.ZeroThreshold, fh.ZeroCount, fh.Count, fh.Sum,
		fh.PositiveSpans, fh.PositiveBuckets, len(fh.NegativeSpans)+len(fh.NegativeBuckets))
}

// ---- counter-histogram streams

// ctrState is one point of a counter process: zero count and three bucket counts.
type ctrState struct {
	z      uint64
	c      [3]uint64
	schema uint64
}

func (s ctrState) body() uint64 {
	return s.z | s.c[0]<<20 | s.c[1]<<24 | s.c[2]<<28 | s.schema<<32
}

// genCounterChunk returns the payloads of one VALID counter-histogram chunk of n samples (a sequence
// chunks.ChunkFromSamples encodes into a single chunk without recoding): one schema, one fixed set of used
// buckets (all counts > 0 from the first sample on), every count non-decreasing, optionally a suffix of
// stale markers. style 0: random start and increments (independent of other chunks, so that the merged
// stream of overlapping chunks has counter resets, disappearing buckets and schema changes inside the
// overlap); style 1: counts are a fixed non-decreasing function of the timestamp (chunks of the same
// process interleave without reset; different bucket sets then only recode).
func genCounterChunk(r *h.Rng, ts []int64, base int64, style int, allowStale bool) []uint64 {
	n := len(ts)
	st := ctrState{schema: 0}
	if r.Chance(15) {
		st.schema = 1
	}
	var used [3]bool
	for i := range used {
		used[i] = r.Chance(50)
	}
	nStale := 0
	if allowStale && r.Chance(25) {
		nStale = 1 + r.Intn(2)
		if nStale > n {
			nStale = n
		}
		if r.Chance(10) {
			nStale = n
		}
	}
	out := make([]uint64, 0, n)
	if style == 0 {
		st.z = uint64(r.Intn(6))
		for i := range used {
			if used[i] {
				st.c[i] = uint64(1 + r.Intn(5))
			}
		}
	}
	for k, t := range ts {
		if k >= n-nStale {
			out = append(out, hbStale*4+uint64(2*r.Intn(2)))
			continue
		}
		if style == 1 {
			d := uint64(t - base)
			if t < base {
				d = 0
			}
			st.z = d
			for i := range used {
				st.c[i] = 0
				if used[i] {
					st.c[i] = 1 + d/4
					if st.c[i] > 15 {
						st.c[i] = 15
					}
				}
			}
		} else if k > 0 {
			st.z += uint64(r.Intn(3))
			for i := range used {
				if used[i] && st.c[i] < 15 && r.Chance(40) {
					st.c[i]++
				}
			}
		}
		out = append(out, st.body()*4+uint64(2*r.Intn(2)))
	}
	return out
}

// csample implements chunks.Sample; histograms are built fresh on every access so that the
// in-place hint rewriting of chainSampleIterator.AtHistogram cannot leak into the inputs.
type csample struct{ s smp }

func (c csample) T() int64    { return c.s.t }
func (c csample) ST() int64   { return 0 }
func (c csample) F() float64  { return math.Float64frombits(c.s.payload) }
func (c csample) H() *histogram.Histogram {
	if c.s.kind == 'h' {
		return mkHist(c.s.payload)
	}
	return nil
}
func (c csample) FH() *histogram.FloatHistogram {
	if c.s.kind == 'H' {
		return mkFHist(c.s.payload)
	}
	return nil
}
func (c csample) Type() chunkenc.ValueType {
	switch c.s.kind {
	case 'h':
		return chunkenc.ValHistogram
	case 'H':
		return chunkenc.ValFloatHistogram
	}
	return chunkenc.ValFloat
}
func (c csample) Copy() chunks.Sample { return c }

func toChunkSamples(xs []smp) []chunks.Sample {
	out := make([]chunks.Sample, len(xs))
	for i, s := range xs {
		out[i] = csample{s}
	}
	return out
}

// readCur renders the sample an iterator is positioned on.
func readCur(it chunkenc.Iterator, vt chunkenc.ValueType) string {
	switch vt {
	case chunkenc.ValFloat:
		t, v := it.At()
		return smp{t, 'f', math.Float64bits(v)}.String()
	case chunkenc.ValHistogram:
		t, hh := it.AtHistogram(nil)
		return smp{t, 'h', histPayload(hh)}.String()
	case chunkenc.ValFloatHistogram:
		t, fh := it.AtFloatHistogram(nil)
		return smp{t, 'H', fhistPayload(fh)}.String()
	}
	return "unknown-type"
}

// ---------------------------------------------------------------- mocks

var errInjected = errors.New("injected")

// mockIt is a list iterator (storage.listSeriesIterator semantics) whose Err() turns non-nil once it is
// exhausted, if errEnd.
type mockIt struct {
	xs     []smp
	idx    int
	errEnd bool
}

func (m *mockIt) typ() chunkenc.ValueType { return csample{m.xs[m.idx]}.Type() }
func (m *mockIt) Next() chunkenc.ValueType {
	m.idx++
	if m.idx >= len(m.xs) {
		m.idx = len(m.xs)
		return chunkenc.ValNone
	}
	return m.typ()
}
func (m *mockIt) Seek(t int64) chunkenc.ValueType {
	if m.idx == -1 {
		m.idx = 0
	}
	for m.idx < len(m.xs) && m.xs[m.idx].t < t {
		m.idx++
	}
	if m.idx >= len(m.xs) {
		return chunkenc.ValNone
	}
	return m.typ()
}
func (m *mockIt) At() (int64, float64) { return m.xs[m.idx].t, math.Float64frombits(m.xs[m.idx].payload) }
func (m *mockIt) AtHistogram(*histogram.Histogram) (int64, *histogram.Histogram) {
	return m.xs[m.idx].t, mkHist(m.xs[m.idx].payload)
}
func (m *mockIt) AtFloatHistogram(*histogram.FloatHistogram) (int64, *histogram.FloatHistogram) {
	return m.xs[m.idx].t, mkFHist(m.xs[m.idx].payload)
}
func (m *mockIt) AtT() int64  { return m.xs[m.idx].t }
func (m *mockIt) AtST() int64 { return 0 }
func (m *mockIt) Err() error {
	if m.errEnd && m.idx >= len(m.xs) {
		return errInjected
	}
	return nil
}

type listSet struct {
	series []storage.Series
	idx    int
	errEnd bool
}

func (l *listSet) Next() bool {
	l.idx++
	if l.idx >= len(l.series) {
		l.idx = len(l.series)
		return false
	}
	return true
}
func (l *listSet) At() storage.Series { return l.series[l.idx] }
func (l *listSet) Err() error {
	if l.errEnd && l.idx >= len(l.series) {
		return errInjected
	}
	return nil
}
func (*listSet) Warnings() annotations.Annotations { return nil }

type listChunkSet struct {
	series []storage.ChunkSeries
	idx    int
	errEnd bool
}

func (l *listChunkSet) Next() bool {
	l.idx++
	if l.idx >= len(l.series) {
		l.idx = len(l.series)
		return false
	}
	return true
}
func (l *listChunkSet) At() storage.ChunkSeries { return l.series[l.idx] }
func (l *listChunkSet) Err() error {
	if l.errEnd && l.idx >= len(l.series) {
		return errInjected
	}
	return nil
}
func (*listChunkSet) Warnings() annotations.Annotations { return nil }

// ---------------------------------------------------------------- parsing

func parseLabels(s string) labels.Labels {
	if s == "-" {
		return labels.EmptyLabels()
	}
	var kv []string
	for _, p := range strings.Split(s, ",") {
		x := strings.SplitN(p, "=", 2)
		kv = append(kv, x[0], x[1])
	}
	return labels.FromStrings(kv...)
}

func parseSamples(s string) []smp {
	if s == "-" {
		return nil
	}
	var out []smp
	for _, p := range strings.Split(s, ",") {
		x := strings.Split(p, ":")
		t, _ := strconv.ParseInt(x[0], 10, 64)
		v, _ := strconv.ParseUint(x[2], 10, 64)
		out = append(out, smp{t, x[1][0], v})
	}
	return out
}

func showSamples(xs []smp) string {
	if len(xs) == 0 {
		return "-"
	}
	parts := make([]string, len(xs))
	for i, s := range xs {
		parts[i] = s.String()
	}
	return strings.Join(parts, ",")
}

// kindRuns splits samples into maximal runs of one sample type.
func kindRuns(xs []smp) [][]smp {
	var out [][]smp
	for i, s := range xs {
		if i == 0 || xs[i-1].kind != s.kind {
			out = append(out, nil)
		}
		out[len(out)-1] = append(out[len(out)-1], s)
	}
	return out
}

type serDecl struct {
	set    int
	kind   string
	errEnd bool
	lset   string
	xs     []smp
}

type cserDecl struct {
	set  int
	lset string
	chks [][]smp
}

func buildSeries(d serDecl) storage.Series {
	lset := parseLabels(d.lset)
	switch {
	case d.kind == "C" && len(d.xs) > 0:
		var dec []storage.Series
		for _, run := range kindRuns(d.xs) {
			m, err := chunks.ChunkFromSamples(toChunkSamples(run))
			if err != nil {
				panic(err)
			}
			chk := m.Chunk
			dec = append(dec, &storage.SeriesEntry{Lset: lset, SampleIteratorFn: func(it chunkenc.Iterator) chunkenc.Iterator { return chk.Iterator(it) }})
		}
		return storage.ChainedSeriesMerge(dec...)
	case d.kind == "M" || d.errEnd:
		xs, e := d.xs, d.errEnd
		return &storage.SeriesEntry{Lset: lset, SampleIteratorFn: func(chunkenc.Iterator) chunkenc.Iterator {
			return &mockIt{xs: xs, idx: -1, errEnd: e}
		}}
	default:
		return storage.NewListSeries(lset, toChunkSamples(d.xs))
	}
}

// ---------------------------------------------------------------- running a case

type state struct {
	nsets   int
	sser    []serDecl
	cser    []cserDecl
	seterr  map[int]bool
	sset    storage.SeriesSet
	cset    storage.ChunkSeriesSet
	cur     storage.Series
	curC    storage.ChunkSeries
	it      chunkenc.Iterator
	dead    bool
	compact bool
}

func renderStep(it chunkenc.Iterator, vt chunkenc.ValueType) string {
	if vt == chunkenc.ValNone {
		if it.Err() != nil {
			return "err"
		}
		return "end"
	}
	return readCur(it, vt)
}

func (st *state) step(f func() chunkenc.ValueType) string {
	if st.it == nil {
		return "bad-op"
	}
	if st.dead {
		return "dead"
	}
	var out string
	if p, _ := h.Try(func() { out = renderStep(st.it, f()) }); p {
		out = "panic"
	}
	if out == "err" || out == "panic" || out == "end" {
		st.dead = true
	}
	return out
}

func expandChunks(cs storage.ChunkSeries) string {
	var parts []string
	status := "ok"
	p, _ := h.Try(func() {
		it := cs.Iterator(nil)
		for it.Next() {
			m := it.At()
			var xs []smp
			ci := m.Chunk.Iterator(nil)
			for vt := ci.Next(); vt != chunkenc.ValNone; vt = ci.Next() {
				xs = append(xs, parseSamples(readCur(ci, vt))...)
			}
			first, last := "-", "-"
			if len(xs) > 0 {
				first, last = strconv.FormatInt(xs[0].t, 10), strconv.FormatInt(xs[len(xs)-1].t, 10)
			}
			parts = append(parts, fmt.Sprintf("%d/%d/%d/%s/%s/%s", m.MinTime, m.MaxTime, m.Chunk.NumSamples(), first, last, showSamples(xs)))
		}
		if it.Err() != nil {
			status = "err"
		}
	})
	if p {
		status = "panic"
	}
	if len(parts) == 0 {
		return "c - " + status
	}
	return "c " + strings.Join(parts, "|") + " " + status
}

func runCase(c *h.Ctx, ops []string) {
	st := &state{seterr: map[int]bool{}}
	for _, op := range ops {
		f := strings.Fields(op)
		out := "bad-op"
		switch {
		case f[0] == "nsets" && len(f) == 2:
			st.nsets, _ = strconv.Atoi(f[1])
			out = "ok"
		case f[0] == "s" && len(f) == 6:
			i, _ := strconv.Atoi(f[1])
			st.sser = append(st.sser, serDecl{i, f[2], f[3] == "1", f[4], parseSamples(f[5])})
			out = "ok"
		case f[0] == "cs" && len(f) == 4:
			i, _ := strconv.Atoi(f[1])
			d := cserDecl{set: i, lset: f[2]}
			if f[3] != "-" {
				for _, p := range strings.Split(f[3], "|") {
					d.chks = append(d.chks, parseSamples(p))
				}
			}
			st.cser = append(st.cser, d)
			out = "ok"
		case f[0] == "seterr" && len(f) == 2:
			i, _ := strconv.Atoi(f[1])
			st.seterr[i] = true
			out = "ok"
		case f[0] == "merge" && len(f) == 2:
			lim, _ := strconv.Atoi(f[1])
			sets := make([]storage.SeriesSet, st.nsets)
			for i := range sets {
				ls := &listSet{idx: -1, errEnd: st.seterr[i]}
				for _, d := range st.sser {
					if d.set == i {
						ls.series = append(ls.series, buildSeries(d))
					}
				}
				sets[i] = ls
			}
			st.sset, st.cset, st.cur, st.it, st.dead = storage.NewMergeSeriesSet(sets, lim, storage.ChainedSeriesMerge), nil, nil, nil, false
			out = "ok"
		case f[0] == "cmerge" && len(f) == 3:
			lim, _ := strconv.Atoi(f[1])
			sets := make([]storage.ChunkSeriesSet, st.nsets)
			for i := range sets {
				ls := &listChunkSet{idx: -1, errEnd: st.seterr[i]}
				for _, d := range st.cser {
					if d.set == i {
						var sl [][]chunks.Sample
						for _, ch := range d.chks {
							sl = append(sl, toChunkSamples(ch))
						}
						ls.series = append(ls.series, storage.NewListChunkSeriesFromSamples(parseLabels(d.lset), sl...))
					}
				}
				sets[i] = ls
			}
			st.compact = f[2] == "compact"
			merger := storage.NewConcatenatingChunkSeriesMerger()
			if st.compact {
				merger = storage.NewCompactingChunkSeriesMerger(storage.ChainedSeriesMerge)
			}
			st.cset, st.sset, st.curC, st.it = storage.NewMergeChunkSeriesSet(sets, lim, merger), nil, nil, nil
			out = "ok"
		case f[0] == "direct":
			var its []chunkenc.Iterator
			for _, d := range st.sser {
				its = append(its, buildSeries(d).Iterator(nil))
			}
			st.it, st.dead = storage.ChainSampleIteratorFromIterators(nil, its), false
			out = "ok"
		case f[0] == "next":
			st.it, st.dead = nil, false
			switch {
			case st.sset != nil:
				if st.sset.Next() {
					st.cur = st.sset.At()
					out = "series " + showLabels(st.cur.Labels())
				} else {
					st.cur = nil
					out = "end"
					if st.sset.Err() != nil {
						out = "err"
					}
				}
			case st.cset != nil:
				if st.cset.Next() {
					st.curC = st.cset.At()
					out = "series " + showLabels(st.curC.Labels())
				} else {
					st.curC = nil
					out = "end"
					if st.cset.Err() != nil {
						out = "err"
					}
				}
			}
		case f[0] == "it":
			if st.cur != nil {
				st.it, st.dead = st.cur.Iterator(nil), false
				out = "ok"
			}
		case f[0] == "n":
			out = st.step(func() chunkenc.ValueType { return st.it.Next() })
		case f[0] == "k" && len(f) == 2:
			t, _ := strconv.ParseInt(f[1], 10, 64)
			out = st.step(func() chunkenc.ValueType { return st.it.Seek(t) })
		case f[0] == "chunks":
			if st.curC != nil {
				out = expandChunks(st.curC)
			}
		}
		if strings.HasPrefix(out, "series") || out == "end" || out == "err" || out == "panic" || out == "dead" {
			c.Count("out:" + strings.Fields(out)[0])
		}
		c.Op(op, out)
	}
}

func showLabels(l labels.Labels) string {
	var parts []string
	l.Range(func(x labels.Label) { parts = append(parts, x.Name+"="+x.Value) })
	if len(parts) == 0 {
		return "-"
	}
	return strings.Join(parts, ",")
}

// ---------------------------------------------------------------- generation

// labelPool is listed in labels.Compare order; a set takes a sub-sequence of it.
var labelPool = []string{"-", "a=1", "a=1,b=1", "a=1,b=2", "a=10", "a=2", "a=2,c=", "b=1", "b=1,c=x"}

var floatPool = []uint64{0, 0x8000000000000000, 0x3ff0000000000000, 0x4004000000000000, 0x7ff0000000000002, 0x7ff8000000000001,
	0x7ff0000000000000, 0xfff0000000000000, 1, 0xffffffffffffffff, 0x4059000000000000}

func genPayload(r *h.Rng, kind byte, gaugeOnly bool) uint64 {
	if kind == 'f' {
		if r.Chance(70) {
			return h.Pick(r, floatPool)
		}
		return r.U64()
	}
	id := uint64(r.Intn(9))
	if gaugeOnly {
		return id*4 + 3
	}
	return id*4 + uint64(r.Intn(4))
}

// genTimes returns n strictly increasing timestamps from a window shared by the whole case.
func genTimes(r *h.Rng, n int, base, span int64) []int64 {
	if int64(n) > span {
		n = int(span)
	}
	seen := map[int64]bool{}
	var ts []int64
	for len(ts) < n {
		t := base + r.Range(0, span-1)
		if !seen[t] {
			seen[t] = true
			ts = append(ts, t)
		}
	}
	sort.Slice(ts, func(i, j int) bool { return ts[i] < ts[j] })
	return ts
}

func genSamples(r *h.Rng, n int, base, span int64, mixed, gaugeOnly bool) []smp {
	ts := genTimes(r, n, base, span)
	xs := make([]smp, len(ts))
	kind := byte('f')
	if mixed {
		kind = h.Pick(r, []byte{'f', 'h', 'H'})
	}
	for i, t := range ts {
		if mixed && r.Chance(25) {
			kind = h.Pick(r, []byte{'f', 'h', 'H'})
		}
		xs[i] = smp{t, kind, genPayload(r, kind, gaugeOnly)}
	}
	return xs
}

func pickSubseq(r *h.Rng, p int) []string {
	var out []string
	for _, l := range labelPool {
		if r.Chance(p) {
			out = append(out, l)
		}
	}
	return out
}

func genScript(r *h.Rng, base, span int64, total int) []string {
	var ops []string
	n := r.Intn(14)
	target := base - 2
	for i := 0; i < n; i++ {
		if r.Chance(60) {
			ops = append(ops, "n")
			continue
		}
		switch {
		case r.Chance(70):
			target += r.Range(0, 4)
		case r.Chance(50):
			target = base + r.Range(-2, span+1)
		case r.Chance(50):
			target = h.PickI64(r, []int64{math.MinInt64, math.MinInt64 + 1, -1, 0, math.MaxInt64 - 1, math.MaxInt64})
		}
		ops = append(ops, fmt.Sprintf("k %d", target))
	}
	if r.Chance(35) {
		lim := 400
		if r.Chance(80) {
			lim = 30
		}
		for i := 0; i <= total && i < lim; i++ {
			ops = append(ops, "n")
		}
	}
	return ops
}

func genSampleCase(c *h.Ctx, r *h.Rng, direct bool) []string {
	nsets := r.Intn(7)
	if r.Chance(10) {
		nsets = 2
	}
	ops := []string{fmt.Sprintf("nsets %d", nsets)}
	base := h.PickI64(r, []int64{0, 0, 0, -5, 1000, math.MaxInt64 - 12, math.MinInt64 + 1})
	span := int64(4 + r.Intn(10))
	if r.Chance(8) && base < math.MaxInt64-1000 {
		span = 300
	}
	useMin := base == math.MinInt64+1 && r.Chance(50)
	p := 15 + r.Intn(70)
	total := 0
	labelsSeen := map[string]bool{}
	anyErr := false
	for i := 0; i < nsets; i++ {
		for _, l := range pickSubseq(r, p) {
			kind := h.Pick(r, []string{"L", "L", "M", "C"})
			n := r.Intn(7)
			if span > 100 && r.Chance(50) {
				n = 100 + r.Intn(60)
			}
			mixed := r.Chance(30)
			xs := genSamples(r, n, base, span, mixed, kind == "C")
			if useMin && kind != "C" && r.Chance(40) && (len(xs) == 0 || xs[0].t > math.MinInt64) {
				xs = append([]smp{{math.MinInt64, 'f', genPayload(r, 'f', false)}}, xs...)
				c.Count("gen:minint64-sample")
			}
			e := 0
			if kind == "M" && r.Chance(6) {
				e = 1
				anyErr = true
				c.Count("gen:iterator-error")
			}
			total += len(xs)
			labelsSeen[l] = true
			ops = append(ops, fmt.Sprintf("s %d %s %d %s %s", i, kind, e, l, showSamples(xs)))
		}
		if r.Chance(4) {
			ops = append(ops, fmt.Sprintf("seterr %d", i))
			anyErr = true
			c.Count("gen:set-error")
		}
	}
	_ = anyErr
	c.Count(fmt.Sprintf("nsets:%d", nsets))
	if direct {
		ops = append(ops, "direct")
		ops = append(ops, genScript(r, base, span, total)...)
		return ops
	}
	lim := 0
	if r.Chance(15) {
		lim = 1 + r.Intn(4)
		c.Count("gen:limit")
	}
	ops = append(ops, fmt.Sprintf("merge %d", lim))
	for i := 0; i < len(labelsSeen)+2; i++ {
		ops = append(ops, "next")
		if r.Chance(90) {
			ops = append(ops, "it")
			ops = append(ops, genScript(r, base, span, total)...)
		}
	}
	return ops
}

func genChunkCase(c *h.Ctx, r *h.Rng) []string {
	nsets := r.Intn(7)
	ops := []string{fmt.Sprintf("nsets %d", nsets)}
	base := h.PickI64(r, []int64{0, 0, -50, 100000})
	// a pool of chunks shared by all series of the case: identical and overlapping chunks are frequent
	npool := 2 + r.Intn(5)
	var pool [][]smp
	// counter cases: most pool chunks are COUNTER (non-gauge) native histograms of one flavour whose windows
	// overlap, so the compacting merger re-encodes merged streams that contain counter resets, used buckets
	// that disappear, schema changes and stale markers inside the overlap
	counterCase := r.Chance(45)
	ctrKind := h.Pick(r, []byte{'h', 'H'})
	if counterCase {
		c.Count("gen:counter-hist-case")
	}
	for i := 0; i < npool; i++ {
		if counterCase && r.Chance(75) {
			off := base + int64(r.Intn(6))*5
			n := 1 + r.Intn(6)
			span := int64(3 + r.Intn(12))
			if r.Chance(5) {
				n, span = 60+r.Intn(80), 400
				c.Count("gen:big-chunk")
			}
			kind := ctrKind
			if r.Chance(8) {
				kind = h.Pick(r, []byte{'h', 'H'})
			}
			ts := genTimes(r, n, off, span)
			ps := genCounterChunk(r, ts, base, r.Intn(2), true)
			xs := make([]smp, len(ts))
			for k, t := range ts {
				xs[k] = smp{t, kind, ps[k]}
			}
			if _, err := chunks.ChunkFromSamples(toChunkSamples(xs)); err != nil {
				panic("generator: invalid counter chunk: " + err.Error() + " " + showSamples(xs))
			}
			pool = append(pool, xs)
			continue
		}
		off := base + int64(r.Intn(6))*5
		n := 1 + r.Intn(6)
		span := int64(3 + r.Intn(12))
		if r.Chance(6) {
			n, span = 60+r.Intn(80), 400
			c.Count("gen:big-chunk")
		}
		kind := byte('f')
		if r.Chance(20) {
			kind = h.Pick(r, []byte{'h', 'H'})
		}
		ts := genTimes(r, n, off, span)
		xs := make([]smp, len(ts))
		for k, t := range ts {
			xs[k] = smp{t, kind, genPayload(r, kind, true)}
		}
		pool = append(pool, xs)
	}
	p := 20 + r.Intn(70)
	nl := map[string]bool{}
	for i := 0; i < nsets; i++ {
		for _, l := range pickSubseq(r, p) {
			nc := r.Intn(4)
			var chks [][]smp
			for k := 0; k < nc; k++ {
				if r.Chance(75) {
					chks = append(chks, h.Pick(r, pool))
				} else {
					off := base + int64(r.Intn(8))*5
					kind := byte('f')
					ts := genTimes(r, 1+r.Intn(5), off, int64(3+r.Intn(8)))
					xs := make([]smp, len(ts))
					for q, t := range ts {
						xs[q] = smp{t, kind, genPayload(r, kind, true)}
					}
					chks = append(chks, xs)
				}
			}
			sort.SliceStable(chks, func(a, b int) bool {
				if chks[a][0].t != chks[b][0].t {
					return chks[a][0].t < chks[b][0].t
				}
				return chks[a][len(chks[a])-1].t < chks[b][len(chks[b])-1].t
			})
			parts := make([]string, len(chks))
			for k, ch := range chks {
				parts[k] = showSamples(ch)
			}
			cs := "-"
			if len(parts) > 0 {
				cs = strings.Join(parts, "|")
			}
			nl[l] = true
			ops = append(ops, fmt.Sprintf("cs %d %s %s", i, l, cs))
		}
		if r.Chance(3) {
			ops = append(ops, fmt.Sprintf("seterr %d", i))
		}
	}
	lim := 0
	if r.Chance(10) {
		lim = 1 + r.Intn(3)
	}
	mode := "compact"
	if r.Chance(25) {
		mode = "concat"
	}
	c.Count("chunkmode:" + mode)
	ops = append(ops, fmt.Sprintf("cmerge %d %s", lim, mode))
	for i := 0; i < len(nl)+2; i++ {
		ops = append(ops, "next", "chunks")
	}
	return ops
}

func main() {
	c := h.Init()
	defer c.Finish()
	if c.Replay != "" {
		for _, cs := range c.ReplayCases() {
			c.Case(strings.TrimPrefix(cs[0], "case "))
			runCase(c, cs[1:])
		}
		return
	}
	r := c.Rng
	for i := 0; i < c.N; i++ {
		var ops []string
		var kind string
		switch x := r.Intn(100); {
		case x < 55:
			kind = "m"
			ops = genSampleCase(c, r, false)
		case x < 70:
			kind = "d"
			ops = genSampleCase(c, r, true)
		default:
			kind = "c"
			ops = genChunkCase(c, r)
		}
		c.Case(fmt.Sprintf("%s%d", kind, i))
		c.Count("stream:" + kind)
		hh := fnv.New64a()
		hh.Write([]byte(strings.Join(ops, "\n")))
		c.NonTrivial(strconv.FormatUint(hh.Sum64(), 16))
		runCase(c, ops)
	}
}
