// Suite notify (C46): the real notifier.Manager (NewManager / ApplyConfig / Run / Send / Stop) against
// three fake Alertmanagers (httptest servers recording every request they receive, in arrival order).
//
// Every HTTP request of the notifier passes through Options.Do, which parks it at a *gate* owned by the
// harness: the request stays "in flight" until the harness releases it with a scripted verdict. The
// harness is single-threaded and, after every op, waits until each send loop is at a well-defined point
// (parked at the gate with a batch, or idle with an empty queue), so the interleaving of Send / set
// changes / Stop with the send loops is chosen by the op sequence, not by the Go scheduler.
//
// A loop is named <tag>.<e>: Alertmanager server e (0..2) reached through the set whose path prefix is
// /<tag>; the URL (and so the metric label) is http://127.0.0.1:<port e>/<tag>/api/v2/alerts.
//
// ops:
//
//	new <cap> <maxBatch> <drain 0|1>        NewManager(Options{QueueCapacity, MaxBatchSize, DrainOnShutdown}), go Run
//	cfg <g> <tag>:<drops> …                 ApplyConfig: global alert_relabel drops ids g; one set per further
//	                                        token (position i = key config-i), path_prefix /<tag>, set-level
//	                                        alert_relabel_configs dropping ids <drops>; '-' = none, ids comma-separated
//	sync <pos> <e,e,…|-> <dr>               target update for set config-<pos> (through Run's channel -> reload -> sync)
//	send <id> <id> …                        Manager.Send(alerts with label id)
//	rel <tag>.<e> <k> <ok|fail|err>         release the k-th oldest parked request of that URL: ok = forwarded, server
//	                                        answers 200; fail = forwarded, server answers 500; err = transport error,
//	                                        the server never sees it
//	stop <dr>                               Manager.Stop and wait for Run to return
//	park <tag>.<e>                          second gate: the NEXT nextBatch() of that (running) loop parks its goroutine at
//	                                        verifhook point "notifier.batchTaken", i.e. after the batch left the queue and
//	                                        BEFORE sendAll encodes it; everything the following ops do (send -> add to the
//	                                        same queue, overflow, set changes, Stop) happens between take and encode.
//	                                        No effect (`none`) if the loop does not run, QueueCapacity is 0, the loop is
//	                                        already armed, or a goroutine of that URL is still parked there.
//	unpark <tag>.<e>                        let the goroutine parked there continue: it encodes its batch and the request
//	                                        arrives at the Options.Do gate (`unpark:<ids>`)
//	<dr> = pattern over o|f|x (ok/fail/err) answering the requests that arrive *during* the op (drain on
//	       shutdown / on removal), per URL, cyclically.
//
// output of every op: `<res> | ams=… | held=… | m=… | rx=… | log=… | pre=…`
//
//	res   ok | none | stopped | bad | rel:<ids>:<verdict> | dr:<name>:<ids>:<v>;…  (+ ` stuck:<name>` / ` uncounted:<name>` /
//	      ` unexpected:<name>:<ids>` when the notifier did not do what the harness waited for)
//	ams   Manager.Alertmanagers() as sorted loop names
//	held  requests parked at the gate, per URL in arrival order: name:ids+ids
//	m     the four per-Alertmanager metrics of the private registry, per URL: name:q:sent:dropped:errors (x = absent;
//	      a URL with only queue_length present is omitted, see snapshot)
//	rx    what the fake Alertmanagers received during the op: name:ids:status, per URL in arrival order
//	log   the notifier's drop warnings during the op: name:full:<n> | name:big:<n> | name:nodrain:<n>
//	pre   loops whose goroutine is parked at "notifier.batchTaken" (batch taken, not yet encoded), sorted
//
// ids inside a batch are joined by '.', lists by ','.
package main

import (
	"bytes"
	"context"
	"encoding/json"
	"errors"
	"fmt"
	"io"
	"log/slog"
	"net/http"
	"net/http/httptest"
	"net/url"
	"sort"
	"strconv"
	"strings"
	"sync"
	"sync/atomic"
	"time"

	"github.com/prometheus/client_golang/prometheus"
	"github.com/prometheus/common/model"

	"github.com/prometheus/prometheus/config"
	"github.com/prometheus/prometheus/discovery/targetgroup"
	"github.com/prometheus/prometheus/model/labels"
	"github.com/prometheus/prometheus/model/relabel"
	"github.com/prometheus/prometheus/notifier"
	"github.com/prometheus/prometheus/util/verifhook"

	"verif/harness/h"
)

const nServers = 3

var waitTimeout = 8 * time.Second

// ---------------------------------------------------------------- fake Alertmanagers

type receipt struct {
	name   string
	ids    []int
	status int
}

type servers struct {
	srv   [nServers]*httptest.Server
	port  map[string]int // port -> index
	mtx   sync.Mutex
	epoch int64
	rx    []receipt
}

var srvs servers

func loopName(u *url.URL) string { return loopNameOf(u.Host, u.Path) }

func loopNameOf(host, path string) string {
	port := host
	if i := strings.LastIndexByte(host, ':'); i >= 0 {
		port = host[i+1:]
	}
	e, ok := srvs.port[port]
	if !ok {
		return "?"
	}
	tag := strings.TrimSuffix(strings.TrimPrefix(path, "/"), "/api/v2/alerts")
	return tag + "." + strconv.Itoa(e)
}

func idsOfBody(b []byte) []int {
	var alerts []struct {
		Labels map[string]string `json:"labels"`
	}
	if err := json.Unmarshal(b, &alerts); err != nil {
		return []int{-1}
	}
	ids := make([]int, 0, len(alerts))
	for _, a := range alerts {
		n, err := strconv.Atoi(a.Labels["id"])
		if err != nil {
			n = -2
		}
		ids = append(ids, n)
	}
	return ids
}

func startServers() {
	srvs.port = map[string]int{}
	for i := 0; i < nServers; i++ {
		s := httptest.NewServer(http.HandlerFunc(func(w http.ResponseWriter, r *http.Request) {
			b, _ := io.ReadAll(r.Body)
			status := 200
			if r.Header.Get("X-Verif-Verdict") == "fail" {
				status = 500
			}
			ep, _ := strconv.ParseInt(r.Header.Get("X-Verif-Epoch"), 10, 64)
			srvs.mtx.Lock()
			if ep == srvs.epoch {
				srvs.rx = append(srvs.rx, receipt{loopNameOf(r.Host, r.URL.Path), idsOfBody(b), status})
			}
			srvs.mtx.Unlock()
			w.WriteHeader(status)
		}))
		u, _ := url.Parse(s.URL)
		srvs.port[u.Port()] = i
		srvs.srv[i] = s
	}
}

func (s *servers) take() []receipt {
	s.mtx.Lock()
	defer s.mtx.Unlock()
	r := s.rx
	s.rx = nil
	return r
}

// ---------------------------------------------------------------- gate

type parked struct {
	name    string
	ids     []int
	verdict chan string
}

type gate struct {
	arrivals chan *parked
	epoch    int64
	done     chan struct{} // closed at the end of the case: every request fails at once
}

func (g *gate) do(ctx context.Context, client *http.Client, req *http.Request) (*http.Response, error) {
	var body []byte
	if req.GetBody != nil {
		rc, err := req.GetBody()
		if err == nil {
			body, _ = io.ReadAll(rc)
			rc.Close()
		}
	}
	p := &parked{name: loopName(req.URL), ids: idsOfBody(body), verdict: make(chan string, 1)}
	select {
	case <-g.done:
		return nil, errors.New("case closed")
	default:
	}
	g.arrivals <- p
	var v string
	select {
	case v = <-p.verdict:
	case <-g.done:
		return nil, errors.New("case closed")
	case <-ctx.Done():
		return nil, ctx.Err()
	}
	if v == "err" {
		return nil, errors.New("injected transport error")
	}
	req.Header.Set("X-Verif-Verdict", v)
	req.Header.Set("X-Verif-Epoch", strconv.FormatInt(g.epoch, 10))
	if client == nil {
		client = http.DefaultClient
	}
	return client.Do(req.WithContext(ctx))
}

// ---------------------------------------------------------------- log capture

type logEvent struct {
	name, kind string
	n          int64
}

type logSink struct {
	mtx sync.Mutex
	ev  []logEvent
}

type logHandler struct {
	sink *logSink
	am   string
	w    *world
}

// Debug is enabled because the first thing sendLoop.loop() does, on the loop goroutine itself, is
// logger.Debug("Starting send loop") through the per-Alertmanager logger: that is where the harness
// registers the goroutine with verifhook (under a fresh id mapped to the world and the loop name), so
// that the scheduler sees its "notifier.batchTaken" points. The drain run by the caller of stop() is
// never registered and passes the point.
func (*logHandler) Enabled(_ context.Context, l slog.Level) bool { return l >= slog.LevelDebug }
func (hd *logHandler) WithGroup(string) slog.Handler             { return hd }
func (hd *logHandler) WithAttrs(as []slog.Attr) slog.Handler {
	n := &logHandler{sink: hd.sink, am: hd.am, w: hd.w}
	for _, a := range as {
		if a.Key == "alertmanager" {
			n.am = a.Value.String()
		}
	}
	return n
}

func (hd *logHandler) Handle(_ context.Context, r slog.Record) error {
	kind := ""
	switch r.Message {
	case "Starting send loop":
		if u, err := url.Parse(hd.am); err == nil && hd.w != nil {
			registerLoop(hd.w, loopName(u))
		}
		return nil
	case "Alert notification queue full, dropping alerts":
		kind = "full"
	case "Alert batch larger than queue capacity, dropping alerts":
		kind = "big"
	case "Alert notification queue not drained on shutdown, dropping alerts":
		kind = "nodrain"
	default:
		return nil
	}
	var n int64 = -1
	r.Attrs(func(a slog.Attr) bool {
		if a.Key == "count" {
			n = a.Value.Int64()
		}
		return true
	})
	name := "?"
	if u, err := url.Parse(hd.am); err == nil {
		name = loopName(u)
	}
	hd.sink.mtx.Lock()
	hd.sink.ev = append(hd.sink.ev, logEvent{name, kind, n})
	hd.sink.mtx.Unlock()
	return nil
}

// ---------------------------------------------------------------- one case

type setCfg struct {
	tag   string
	drops map[int]bool
}

// ---------------------------------------------------------------- second gate: "notifier.batchTaken"

// prepark is a loop goroutine parked between nextBatch() and sendAll().
type prepark struct {
	name    string
	live    bool // it is the goroutine of the URL's running loop
	release chan struct{}
}

type loopG struct {
	w    *world
	name string
}

var loopReg = struct {
	mtx  sync.Mutex
	next int
	byID map[int]*loopG
}{byID: map[int]*loopG{}}

// registerLoop runs on a freshly started loop goroutine.
func registerLoop(w *world, name string) {
	loopReg.mtx.Lock()
	loopReg.next++
	id := loopReg.next
	loopReg.byID[id] = &loopG{w, name}
	loopReg.mtx.Unlock()
	w.pmtx.Lock()
	w.ids = append(w.ids, id)
	w.pmtx.Unlock()
	verifhook.Register(id)
}

// schedule is the verifhook scheduler: called on a registered goroutine at every point it reaches.
func schedule(id int, point string) {
	if point != "notifier.batchTaken" {
		return
	}
	loopReg.mtx.Lock()
	g := loopReg.byID[id]
	loopReg.mtx.Unlock()
	if g == nil {
		return
	}
	w := g.w
	w.pmtx.Lock()
	if w.closed || !w.armed[g.name] {
		w.pmtx.Unlock()
		return
	}
	delete(w.armed, g.name)
	w.pmtx.Unlock()
	p := &prepark{name: g.name, release: make(chan struct{})}
	w.parks <- p
	<-p.release
}

type world struct {
	pmtx   sync.Mutex
	armed  map[string]bool // the next take of this URL's loop parks before encoding
	closed bool
	ids    []int
	parks  chan *prepark
	pre    map[string]*prepark // goroutines parked before encoding, at most one per URL

	m       *notifier.Manager
	reg     *prometheus.Registry
	g       *gate
	sink    *logSink
	tsets   chan map[string][]*targetgroup.Group
	runDone chan struct{}
	stopped bool
	cap     int
	held    map[string][]*parked // parked requests per URL, arrival order
	liveReq map[string]*parked   // the parked request of the URL's *running* loop, if any
	gdrops  map[int]bool
	sets    []setCfg
}

var epochCtr int64

func newWorld(cap, mb int, drain bool) *world {
	w := &world{cap: cap, held: map[string][]*parked{}, liveReq: map[string]*parked{}, gdrops: map[int]bool{},
		armed: map[string]bool{}, parks: make(chan *prepark, 64), pre: map[string]*prepark{}}
	w.reg = prometheus.NewRegistry()
	w.g = &gate{arrivals: make(chan *parked, 1024), epoch: atomic.AddInt64(&epochCtr, 1), done: make(chan struct{})}
	srvs.mtx.Lock()
	srvs.epoch = w.g.epoch
	srvs.rx = nil
	srvs.mtx.Unlock()
	w.sink = &logSink{}
	logger := slog.New(&logHandler{sink: w.sink, w: w})
	w.m = notifier.NewManager(&notifier.Options{
		QueueCapacity: cap, MaxBatchSize: mb, DrainOnShutdown: drain, Do: w.g.do, Registerer: w.reg,
	}, model.UTF8Validation, logger)
	w.tsets = make(chan map[string][]*targetgroup.Group)
	w.runDone = make(chan struct{})
	go func() { w.m.Run(w.tsets); close(w.runDone) }()
	return w
}

func dropCfg(ids []int) []*relabel.Config {
	if len(ids) == 0 {
		return nil
	}
	ss := make([]string, len(ids))
	for i, n := range ids {
		ss[i] = strconv.Itoa(n)
	}
	return []*relabel.Config{{
		SourceLabels: model.LabelNames{"id"}, Separator: ";", Regex: relabel.MustNewRegexp(strings.Join(ss, "|")),
		Action: relabel.Drop, NameValidationScheme: model.UTF8Validation,
	}}
}

func parseIDs(s string) ([]int, bool) {
	if s == "-" {
		return nil, true
	}
	var out []int
	for _, p := range strings.Split(s, ",") {
		n, err := strconv.Atoi(p)
		if err != nil || n < 0 {
			return nil, false
		}
		out = append(out, n)
	}
	return out, true
}

func isTag(s string) bool {
	if s == "" {
		return false
	}
	for _, c := range s {
		if c < 'a' || c > 'z' {
			return false
		}
	}
	return true
}

func showBatch(ids []int) string {
	if len(ids) == 0 {
		return "-"
	}
	ss := make([]string, len(ids))
	for i, n := range ids {
		ss[i] = strconv.Itoa(n)
	}
	return strings.Join(ss, ".")
}

// runBlocking runs f in a goroutine and answers every request that arrives meanwhile (drains) with the
// cyclic pattern, per URL. Returns the `dr:` records and whether f finished.
func (w *world) runBlocking(f func(), pattern string) (string, bool) {
	done := make(chan struct{})
	go func() { f(); close(done) }()
	if pattern == "" || pattern == "-" {
		pattern = "o"
	}
	cnt := map[string]int{}
	recs := map[string][]string{}
	timeout := time.After(10 * waitTimeout)
	finished := false
loop:
	for {
		select {
		case <-done:
			finished = true
			break loop
		case p := <-w.g.arrivals:
			c := pattern[cnt[p.name]%len(pattern)]
			cnt[p.name]++
			v := "ok"
			switch c {
			case 'f':
				v = "fail"
			case 'x':
				v = "err"
			}
			recs[p.name] = append(recs[p.name], p.name+":"+showBatch(p.ids)+":"+v)
			p.verdict <- v
		case <-timeout:
			break loop
		}
	}
	names := make([]string, 0, len(recs))
	for n := range recs {
		names = append(names, n)
	}
	sort.Strings(names)
	var all []string
	for _, n := range names {
		all = append(all, recs[n]...)
	}
	if len(all) == 0 {
		return "", finished
	}
	return "dr:" + strings.Join(all, ";"), finished
}

type mrow struct{ q, s, d, e string }

func (w *world) metrics() map[string]*mrow {
	out := map[string]*mrow{}
	mfs, err := w.reg.Gather()
	if err != nil {
		return out
	}
	for _, mf := range mfs {
		var which int
		switch mf.GetName() {
		case "prometheus_notifications_queue_length":
			which = 0
		case "prometheus_notifications_sent_total":
			which = 1
		case "prometheus_notifications_dropped_total":
			which = 2
		case "prometheus_notifications_errors_total":
			which = 3
		default:
			continue
		}
		for _, mm := range mf.GetMetric() {
			name := "?"
			for _, lp := range mm.GetLabel() {
				if lp.GetName() == "alertmanager" {
					if u, err := url.Parse(lp.GetValue()); err == nil {
						name = loopName(u)
					}
				}
			}
			r := out[name]
			if r == nil {
				r = &mrow{"x", "x", "x", "x"}
				out[name] = r
			}
			var v float64
			if mm.Gauge != nil {
				v = mm.GetGauge().GetValue()
			} else {
				v = mm.GetCounter().GetValue()
			}
			s := strconv.FormatInt(int64(v), 10)
			switch which {
			case 0:
				r.q = s
			case 1:
				r.s = s
			case 2:
				r.d = s
			case 3:
				r.e = s
			}
		}
	}
	return out
}

func atoi0(s string) int {
	n, _ := strconv.Atoi(s)
	return n
}

func (w *world) amNames() []string {
	var out []string
	for _, u := range w.m.Alertmanagers() {
		out = append(out, loopName(u))
	}
	sort.Strings(out)
	return out
}

// isArmed reports whether the next take of the URL's running loop will park before encoding.
func (w *world) isArmed(name string) bool {
	w.pmtx.Lock()
	defer w.pmtx.Unlock()
	return w.armed[name]
}

// livePre reports whether the URL's running loop is parked before encoding.
func (w *world) livePre(name string) bool {
	p := w.pre[name]
	return p != nil && p.live
}

// armedSnapshot must be taken BEFORE the action that lets loops run: an armed loop disarms itself when it
// reaches the pause point.
func (w *world) armedSnapshot() map[string]bool {
	w.pmtx.Lock()
	defer w.pmtx.Unlock()
	out := map[string]bool{}
	for n, a := range w.armed {
		if a {
			out[n] = true
		}
	}
	return out
}

// awaitLoops waits until every loop in `names` has taken its next batch and blocked: a loop that was armed
// (snapshot taken before the loops were let run) at "notifier.batchTaken", any other with its request at the
// Options.Do gate.
func (w *world) awaitLoops(names []string, armed map[string]bool, notes *[]string) {
	want, wantPark := map[string]bool{}, map[string]bool{}
	for _, n := range names {
		if armed[n] {
			wantPark[n] = true
		} else {
			want[n] = true
		}
	}
	w.awaitAll(want, wantPark, true, notes)
}

// awaitAll waits until a request of every URL in `want` has reached the gate (those become the parked
// requests of the running loops if `live`) and until the loop goroutine of every URL in `wantPark` is parked at
// "notifier.batchTaken".
func (w *world) awaitAll(want, wantPark map[string]bool, live bool, notes *[]string) {
	deadline := time.After(waitTimeout)
	for len(want)+len(wantPark) > 0 {
		select {
		case p := <-w.g.arrivals:
			w.held[p.name] = append(w.held[p.name], p)
			if want[p.name] {
				delete(want, p.name)
				if live {
					w.liveReq[p.name] = p
				}
			} else {
				*notes = append(*notes, "unexpected:"+p.name+":"+showBatch(p.ids))
			}
		case p := <-w.parks:
			if wantPark[p.name] && w.pre[p.name] == nil {
				delete(wantPark, p.name)
				p.live = true
				w.pre[p.name] = p
			} else {
				*notes = append(*notes, "unexpected:"+p.name+":parked")
				close(p.release)
			}
		case <-deadline:
			var ns []string
			for n := range want {
				ns = append(ns, n)
			}
			for n := range wantPark {
				ns = append(ns, n)
			}
			sort.Strings(ns)
			for _, n := range ns {
				*notes = append(*notes, "stuck:"+n)
			}
			return
		}
	}
}

// pruneLive forgets the parked requests of loops that no longer run (their URL left Alertmanagers()).
func (w *world) pruneLive() {
	live := map[string]bool{}
	for _, n := range w.amNames() {
		live[n] = true
	}
	for n := range w.liveReq {
		if !live[n] {
			delete(w.liveReq, n)
		}
	}
	for n, p := range w.pre {
		if !live[n] {
			p.live = false
		}
	}
	w.pmtx.Lock()
	for n := range w.armed {
		if !live[n] {
			delete(w.armed, n)
		}
	}
	w.pmtx.Unlock()
}

// sweep collects requests nobody waited for.
func (w *world) sweep(notes *[]string) {
	for {
		select {
		case p := <-w.g.arrivals:
			w.held[p.name] = append(w.held[p.name], p)
			*notes = append(*notes, "unexpected:"+p.name+":"+showBatch(p.ids))
		case p := <-w.parks:
			*notes = append(*notes, "unexpected:"+p.name+":parked")
			close(p.release)
		default:
			return
		}
	}
}

func (w *world) snapshot(res string, notes []string) string {
	w.sweep(&notes)
	if len(notes) > 0 {
		res += " " + strings.Join(notes, " ")
	}
	ams := strings.Join(w.amNames(), ",")
	if ams == "" {
		ams = "-"
	}
	var hn []string
	for n, ps := range w.held {
		if len(ps) > 0 {
			hn = append(hn, n)
		}
	}
	sort.Strings(hn)
	var hs []string
	for _, n := range hn {
		var bs []string
		for _, p := range w.held[n] {
			bs = append(bs, showBatch(p.ids))
		}
		hs = append(hs, n+":"+strings.Join(bs, "+"))
	}
	held := strings.Join(hs, ",")
	if held == "" {
		held = "-"
	}
	mm := w.metrics()
	var mn []string
	for n := range mm {
		mn = append(mn, n)
	}
	sort.Strings(mn)
	var ms []string
	for _, n := range mn {
		r := mm[n]
		if r.s == "x" && r.d == "x" && r.e == "x" {
			// Only queue_length exists: re-created by the late nextBatch of a stopped loop's empty wake-up
			// (QueueCapacity 0). Same stale-series defect as C46-F2, but timing-dependent: not printed.
			continue
		}
		ms = append(ms, n+":"+r.q+":"+r.s+":"+r.d+":"+r.e)
	}
	mstr := strings.Join(ms, ",")
	if mstr == "" {
		mstr = "-"
	}
	rx := srvs.take()
	sort.SliceStable(rx, func(i, j int) bool { return rx[i].name < rx[j].name })
	var rs []string
	for _, r := range rx {
		rs = append(rs, r.name+":"+showBatch(r.ids)+":"+strconv.Itoa(r.status))
	}
	rxs := strings.Join(rs, ",")
	if rxs == "" {
		rxs = "-"
	}
	w.sink.mtx.Lock()
	ev := w.sink.ev
	w.sink.ev = nil
	w.sink.mtx.Unlock()
	sort.SliceStable(ev, func(i, j int) bool { return ev[i].name < ev[j].name })
	var ls []string
	for _, e := range ev {
		ls = append(ls, e.name+":"+e.kind+":"+strconv.FormatInt(e.n, 10))
	}
	lstr := strings.Join(ls, ",")
	if lstr == "" {
		lstr = "-"
	}
	var pn []string
	for n := range w.pre {
		pn = append(pn, n)
	}
	sort.Strings(pn)
	pstr := strings.Join(pn, ",")
	if pstr == "" {
		pstr = "-"
	}
	return res + " | ams=" + ams + " | held=" + held + " | m=" + mstr + " | rx=" + rxs + " | log=" + lstr + " | pre=" + pstr
}

func (w *world) survivors(ids []int, tag string) int {
	var sd map[int]bool
	for _, s := range w.sets {
		if s.tag == tag {
			sd = s.drops
		}
	}
	n := 0
	for _, id := range ids {
		if !w.gdrops[id] && !sd[id] {
			n++
		}
	}
	return n
}

func (w *world) op(line string) string {
	t := strings.Fields(line)
	var notes []string
	switch {
	case len(t) >= 2 && t[0] == "cfg":
		if w.stopped {
			return w.snapshot("stopped", nil)
		}
		g, ok := parseIDs(t[1])
		if !ok {
			return w.snapshot("bad", nil)
		}
		var sets []setCfg
		var amcs config.AlertmanagerConfigs
		seen := map[string]bool{}
		for _, tok := range t[2:] {
			kv := strings.SplitN(tok, ":", 2)
			if len(kv) != 2 || !isTag(kv[0]) || seen[kv[0]] {
				return w.snapshot("bad", nil)
			}
			d, ok := parseIDs(kv[1])
			if !ok {
				return w.snapshot("bad", nil)
			}
			seen[kv[0]] = true
			sc := setCfg{tag: kv[0], drops: map[int]bool{}}
			for _, x := range d {
				sc.drops[x] = true
			}
			sets = append(sets, sc)
			c := config.DefaultAlertmanagerConfig
			c.PathPrefix = "/" + kv[0]
			c.Timeout = model.Duration(10 * time.Minute)
			c.AlertRelabelConfigs = dropCfg(d)
			amcs = append(amcs, &c)
		}
		conf := &config.Config{GlobalConfig: config.DefaultGlobalConfig}
		conf.GlobalConfig.MetricNameValidationScheme = model.UTF8Validation
		conf.AlertingConfig.AlertRelabelConfigs = dropCfg(g)
		conf.AlertingConfig.AlertmanagerConfigs = amcs
		pattern := "o"
		var aerr error
		res, fin := w.runBlocking(func() { aerr = w.m.ApplyConfig(conf) }, pattern)
		if !fin {
			notes = append(notes, "stuck:cfg")
		} else if aerr != nil {
			notes = append(notes, "cfgerr")
		}
		w.gdrops = map[int]bool{}
		for _, x := range g {
			w.gdrops[x] = true
		}
		w.sets = sets
		w.pruneLive()
		if res == "" {
			res = "ok"
		}
		return w.snapshot(res, notes)

	case len(t) == 4 && t[0] == "sync":
		if w.stopped {
			return w.snapshot("stopped", nil)
		}
		pos, err := strconv.Atoi(t[1])
		es, ok := parseIDs(t[2])
		if err != nil || !ok {
			return w.snapshot("bad", nil)
		}
		tg := &targetgroup.Group{Source: "verif"}
		for _, e := range es {
			if e >= nServers {
				return w.snapshot("bad", nil)
			}
			u, _ := url.Parse(srvs.srv[e].URL)
			tg.Targets = append(tg.Targets, model.LabelSet{model.AddressLabel: model.LabelValue(u.Host)})
		}
		res, fin := w.runBlocking(func() {
			w.tsets <- map[string][]*targetgroup.Group{"config-" + strconv.Itoa(pos): {tg}}
			w.tsets <- map[string][]*targetgroup.Group{} // barrier: accepted only after the reload above returned
		}, t[3])
		if !fin {
			notes = append(notes, "stuck:sync")
		}
		w.pruneLive()
		if res == "" {
			res = "ok"
		}
		return w.snapshot(res, notes)

	case len(t) >= 1 && t[0] == "send":
		var ids []int
		var alerts []*notifier.Alert
		for _, s := range t[1:] {
			n, err := strconv.Atoi(s)
			if err != nil || n < 0 {
				return w.snapshot("bad", nil)
			}
			ids = append(ids, n)
			alerts = append(alerts, &notifier.Alert{Labels: labels.FromStrings(labels.AlertName, "a", "id", s)})
		}
		live := w.amNames()
		armed := w.armedSnapshot()
		w.m.Send(alerts...)
		if !w.stopped && w.cap > 0 {
			var want []string
			for _, name := range live {
				if w.liveReq[name] != nil || w.livePre(name) {
					continue // that loop is parked at one of the gates: the alerts just queue up
				}
				if w.survivors(ids, name[:strings.IndexByte(name, '.')]) > 0 {
					want = append(want, name)
				}
			}
			w.awaitLoops(want, armed, &notes)
		}
		return w.snapshot("ok", notes)

	case len(t) == 4 && t[0] == "rel":
		name := t[1]
		k, err := strconv.Atoi(t[2])
		v := t[3]
		if err != nil || (v != "ok" && v != "fail" && v != "err") {
			return w.snapshot("bad", nil)
		}
		ps := w.held[name]
		if k < 0 || k >= len(ps) {
			return w.snapshot("none", nil)
		}
		p := ps[k]
		isLive := w.liveReq[name] == p
		before := w.metrics()[name]
		q, sum := 0, 0
		if before != nil {
			q = atoi0(before.q)
			sum = atoi0(before.s) + atoi0(before.d)
		}
		w.held[name] = append(append([]*parked{}, ps[:k]...), ps[k+1:]...)
		if isLive {
			delete(w.liveReq, name)
		}
		armed := w.armedSnapshot()
		p.verdict <- v
		if isLive && q > 0 {
			// the loop is parked, so the gauge is exact: more alerts are queued, the loop must come back
			w.awaitLoops([]string{name}, armed, &notes)
		} else {
			// wait until the outcome is counted (sent, or dropped)
			deadline := time.Now().Add(waitTimeout)
			for {
				r := w.metrics()[name]
				if r != nil && atoi0(r.s)+atoi0(r.d) >= sum+len(p.ids) {
					break
				}
				if time.Now().After(deadline) {
					notes = append(notes, "uncounted:"+name)
					break
				}
				time.Sleep(50 * time.Microsecond)
			}
		}
		return w.snapshot("rel:"+showBatch(p.ids)+":"+v, notes)

	case len(t) == 2 && t[0] == "park":
		name := t[1]
		running := false
		for _, n := range w.amNames() {
			running = running || n == name
		}
		if w.stopped || w.cap == 0 || !running || w.isArmed(name) || w.pre[name] != nil {
			return w.snapshot("none", nil)
		}
		w.pmtx.Lock()
		w.armed[name] = true
		w.pmtx.Unlock()
		return w.snapshot("ok", nil)

	case len(t) == 2 && t[0] == "unpark":
		name := t[1]
		p := w.pre[name]
		if p == nil {
			return w.snapshot("none", nil)
		}
		delete(w.pre, name)
		before := len(w.held[name])
		close(p.release)
		w.awaitAll(map[string]bool{name: true}, nil, p.live, &notes)
		got := "?"
		if hs := w.held[name]; len(hs) > before {
			got = showBatch(hs[len(hs)-1].ids)
		}
		return w.snapshot("unpark:"+got, notes)

	case len(t) == 2 && t[0] == "stop":
		if w.stopped {
			return w.snapshot("stopped", nil)
		}
		res, fin := w.runBlocking(func() { w.m.Stop(); <-w.runDone }, t[1])
		if !fin {
			notes = append(notes, "stuck:stop")
		}
		w.stopped = true
		w.liveReq = map[string]*parked{}
		for _, p := range w.pre {
			p.live = false
		}
		w.pmtx.Lock()
		w.armed = map[string]bool{}
		w.pmtx.Unlock()
		if res == "" {
			res = "ok"
		}
		return w.snapshot(res, notes)
	}
	return w.snapshot("bad", nil)
}

// close ends a case: stop the manager, fail everything still in flight, drop the connections.
func (w *world) close() {
	w.pmtx.Lock()
	w.closed = true
	w.armed = map[string]bool{}
	ids := w.ids
	w.pmtx.Unlock()
	for _, p := range w.pre {
		close(p.release)
	}
	w.pre = map[string]*prepark{}
	close(w.g.done)
	loopReg.mtx.Lock()
	for _, id := range ids {
		delete(loopReg.byID, id)
	}
	loopReg.mtx.Unlock()
	if !w.stopped {
		w.runBlocking(func() { w.m.Stop(); <-w.runDone }, "x")
		w.stopped = true
	}
	for {
		select {
		case p := <-w.g.arrivals:
			p.verdict <- "err"
			continue
		default:
		}
		break
	}
	for _, ps := range w.held {
		for _, p := range ps {
			p.verdict <- "err"
		}
	}
	for _, s := range srvs.srv {
		s.CloseClientConnections()
	}
}

const (
	defCap   = 4
	defBatch = 2
)

// runCase executes op lines (replay) — the first may be `new`.
func runCase(c *h.Ctx, lines []string) {
	var w *world
	for i, l := range lines {
		t := strings.Fields(l)
		if i == 0 && len(t) == 4 && t[0] == "new" {
			cp, e1 := strconv.Atoi(t[1])
			mb, e2 := strconv.Atoi(t[2])
			if e1 == nil && e2 == nil && cp >= 0 && mb >= 1 && (t[3] == "0" || t[3] == "1") {
				w = newWorld(cp, mb, t[3] == "1")
				c.Op(l, w.snapshot("ok", nil))
				continue
			}
		}
		if w == nil {
			w = newWorld(defCap, defBatch, false)
		}
		if len(t) > 0 && t[0] == "new" {
			c.Op(l, w.snapshot("bad", nil))
			continue
		}
		c.Op(l, w.op(l))
	}
	if w != nil {
		w.close()
	}
}

func showIDs(ids []int) string {
	if len(ids) == 0 {
		return "-"
	}
	ss := make([]string, len(ids))
	for i, n := range ids {
		ss[i] = strconv.Itoa(n)
	}
	return strings.Join(ss, ",")
}

type genSet struct {
	tag   string
	drops []int
}

func genCase(c *h.Ctx, r *h.Rng, id string) {
	c.Case(id)
	cp := h.Pick(r, []int{0, 1, 1, 2, 2, 3, 3, 4, 5, 8})
	mb := h.Pick(r, []int{1, 2, 2, 3, 3, 4, 256})
	drain := r.Bool()
	w := newWorld(cp, mb, drain)
	defer w.close()
	var key []string
	emit := func(l string) {
		out := w.op(l)
		c.Op(l, out)
		key = append(key, l)
		if strings.Contains(out, "stuck") || strings.Contains(out, "uncounted") || strings.Contains(out, "unexpected") {
			c.Count("harness-wait-failed")
		}
	}
	l0 := fmt.Sprintf("new %d %d %d", cp, mb, map[bool]int{false: 0, true: 1}[drain])
	c.Op(l0, w.snapshot("ok", nil))
	key = append(key, l0)

	nextID := 1
	randDrops := func(p int) []int {
		var d []int
		for i := 1; i < 60; i++ {
			if r.Chance(p) {
				d = append(d, i)
			}
		}
		return d
	}
	tags := []string{"a", "b", "c"}
	nsets := h.Pick(r, []int{1, 1, 1, 2, 2, 3})
	var g []int
	if r.Chance(30) {
		g = randDrops(12)
	}
	var sets []genSet
	for i := 0; i < nsets; i++ {
		s := genSet{tag: tags[i]}
		if r.Chance(30) {
			s.drops = randDrops(15)
		}
		sets = append(sets, s)
	}
	cfgLine := func() string {
		parts := []string{"cfg", showIDs(g)}
		for _, s := range sets {
			parts = append(parts, s.tag+":"+showIDs(s.drops))
		}
		return strings.Join(parts, " ")
	}
	randEndpoints := func() []int {
		var es []int
		for e := 0; e < nServers; e++ {
			if r.Chance(55) {
				es = append(es, e)
			}
		}
		if len(es) > 0 && r.Chance(15) {
			es = append(es, es[0]) // duplicate target: sync de-duplicates
		}
		if len(es) == 0 && r.Chance(70) {
			es = []int{r.Intn(nServers)}
		}
		return es
	}
	randPattern := func() string {
		return h.Pick(r, []string{"o", "o", "o", "of", "f", "x", "oxf", "fo"})
	}
	emit(cfgLine())
	for i := range sets {
		emit(fmt.Sprintf("sync %d %s %s", i, showIDs(randEndpoints()), randPattern()))
	}
	usePark := r.Chance(30) // second gate: takes parked before encoding, adds / set changes / Stop in between
	if usePark {
		c.Count("case-with-park")
	}
	parkedNames := func() []string {
		var names []string
		for n := range w.pre {
			names = append(names, n)
		}
		sort.Strings(names)
		return names
	}
	nops := int(r.Range(5, 26))
	stopAt := -1
	if r.Chance(55) {
		stopAt = int(r.Range(int64(nops/2), int64(nops)))
	}
	overflowed := false
	for k := 0; k < nops; k++ {
		if k == stopAt {
			emit("stop " + randPattern())
			c.Count("op-stop")
			continue
		}
		if usePark {
			y := r.Intn(100)
			if live := w.amNames(); y < 15 && len(live) > 0 {
				emit("park " + h.Pick(r, live))
				c.Count("op-park")
				continue
			}
			if pn := parkedNames(); y >= 15 && y < 32 && len(pn) > 0 {
				emit("unpark " + h.Pick(r, pn))
				c.Count("op-unpark")
				continue
			}
		}
		x := r.Intn(100)
		switch {
		case x < 45:
			for _, n := range parkedNames() {
				if w.pre[n].live {
					c.Count("send-while-parked-before-encode")
					break
				}
			}
			n := int(r.Range(1, 3))
			if r.Chance(25) {
				n = cp + int(r.Range(0, int64(cp)+3))
				if n == 0 {
					n = 1
				}
				if n > 12 {
					n = 12
				}
			}
			parts := []string{"send"}
			for i := 0; i < n; i++ {
				parts = append(parts, strconv.Itoa(nextID))
				nextID++
			}
			emit(strings.Join(parts, " "))
			c.Count("op-send")
		case x < 80:
			var names []string
			for n, ps := range w.held {
				if len(ps) > 0 {
					names = append(names, n)
				}
			}
			sort.Strings(names)
			if len(names) == 0 {
				if r.Chance(10) {
					emit("rel a.0 0 ok")
				}
				continue
			}
			n := h.Pick(r, names)
			idx := 0
			if len(w.held[n]) > 1 && r.Chance(50) {
				idx = r.Intn(len(w.held[n]))
				c.Count("rel-out-of-arrival-order")
			}
			v := h.Pick(r, []string{"ok", "ok", "ok", "ok", "fail", "fail", "err"})
			emit(fmt.Sprintf("rel %s %d %s", n, idx, v))
			c.Count("op-rel-" + v)
		case x < 90:
			pos := r.Intn(len(sets) + 1)
			if pos == len(sets) && r.Chance(80) {
				pos = r.Intn(len(sets))
			}
			emit(fmt.Sprintf("sync %d %s %s", pos, showIDs(randEndpoints()), randPattern()))
			c.Count("op-sync")
		default:
			switch r.Intn(5) {
			case 0: // change one set's relabelling (new hash: its loops are stopped)
				if len(sets) > 0 {
					sets[r.Intn(len(sets))].drops = randDrops(15)
				}
			case 1: // reorder (same hashes: loops move to another key)
				if len(sets) > 1 {
					sets[0], sets[len(sets)-1] = sets[len(sets)-1], sets[0]
				}
			case 2: // remove / add a set
				if len(sets) > 1 && r.Bool() {
					sets = sets[:len(sets)-1]
				} else if len(sets) < 3 {
					used := map[string]bool{}
					for _, s := range sets {
						used[s.tag] = true
					}
					for _, t := range tags {
						if !used[t] {
							sets = append(sets, genSet{tag: t})
							break
						}
					}
				}
			case 3:
				g = randDrops(12)
			default: // unchanged config
			}
			emit(cfgLine())
			c.Count("op-cfg")
		}
	}
	// flush what is still parked (most of the time)
	if r.Chance(75) {
		for round := 0; round < 40; round++ {
			if pn := parkedNames(); len(pn) > 0 {
				emit("unpark " + pn[0])
				continue
			}
			var names []string
			for n, ps := range w.held {
				if len(ps) > 0 {
					names = append(names, n)
				}
			}
			if len(names) == 0 {
				break
			}
			sort.Strings(names)
			emit(fmt.Sprintf("rel %s 0 %s", names[0], h.Pick(r, []string{"ok", "ok", "fail", "err"})))
		}
	}
	for _, l := range key {
		if strings.Contains(l, ":full:") {
			overflowed = true
		}
	}
	_ = overflowed
	c.Count(fmt.Sprintf("cap-%d", cp))
	c.Count(fmt.Sprintf("maxbatch-%d", mb))
	c.Count(fmt.Sprintf("drain-%v", drain))
	if nextID > 1 {
		c.NonTrivial(strings.Join(key, "\n"))
	}
}

func main() {
	c := h.Init()
	startServers()
	verifhook.SetScheduler(schedule)
	if v, ok := c.Extra["wait_ms"]; ok {
		if n, err := strconv.Atoi(v); err == nil {
			waitTimeout = time.Duration(n) * time.Millisecond
		}
	}
	if c.Replay != "" {
		for _, cs := range c.ReplayCases() {
			c.Case(strings.TrimPrefix(cs[0], "case "))
			runCase(c, cs[1:])
		}
	} else {
		for i := 0; i < c.N; i++ {
			genCase(c, c.Rng.Fork(), fmt.Sprintf("%d-%d", c.Seed, i))
		}
	}
	c.Finish()
}

var _ = bytes.NewReader
