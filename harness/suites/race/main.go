// Suite race (C06): queries placed at every step of a real compaction / truncation / out-of-order
// compaction / block compaction + deletion of a real tsdb.DB.
//
// A maintenance goroutine runs db.Compact / db.CompactOOOHead / db.CompactHead; the protocol points
// (tsdb.VerifPointHook: the existing test callbacks memTruncationCallBack and
// compactOOOHeadTestingCallback, plus the verifAt("…") call sites of fixes/hooks-C06.patch when they are
// present in the checkout) park it. At each parked position the harness opens queriers (generated
// ranges: inside the block range, straddling the truncation point, inside the head), reads them at once
// or holds them open across the following steps and reads them later. A step that does not reach the
// next point because the maintenance goroutine sits in one of the protocol's waits
// (WaitForPendingReadersInTimeRange, WaitForPendingReadersForOOOChunksAtOrBefore, Block.Close's
// pendingReaders.Wait — recognised on its stack) is reported as `blocked`.
//
// ops (the `step` lines carry OBSERVATIONS of the real run, like suite crash: which point was reached and
// which block directories appeared; a replay re-observes them):
//
//	cfg <blockRange> <oooWindow> <samplesPerChunk> <oooCap>           -> ok
//	put <series> <t> <v> <ooo:0|1>                                     -> ok | <error class>
//	maint compact | maint ooo | maint head <mint> <maxt>               -> started
//	step <point>|blocked:<which>|done:<err>|nomaint [<Bk>] new=<id:mint:maxt:i|o:parents,…|->
//	     -> hmin=… flag=… trunc=… lastgc=… ooogc=… omin=… omax=… loaded=… disk=…
//	        (omin/omax = Head.MinOOOTime()/MaxOOOTime(), the published bounds DB.Querier tests a range against)
//	open <q> <mint> <maxt> -> ok ;  read <q> -> s<i>=t:v,t:v;… ;  close <q> -> ok
package main

import (
	"context"
	"encoding/json"
	"errors"
	"fmt"
	"math"
	"os"
	"path/filepath"
	"runtime"
	"runtime/debug"
	"sort"
	"strconv"
	"strings"
	"time"

	"github.com/oklog/ulid/v2"
	"github.com/prometheus/common/promslog"

	"github.com/prometheus/prometheus/model/labels"
	"github.com/prometheus/prometheus/storage"
	"github.com/prometheus/prometheus/tsdb"
	"github.com/prometheus/prometheus/tsdb/chunkenc"

	"verif/harness/h"
)

type maint struct {
	arrive   chan string
	resume   chan struct{}
	done     chan error
	parked   bool
	finished bool
	// the previous step ended with `blocked`
	wasBlocked bool
}

type env struct {
	dir     string
	db      *tsdb.DB
	opts    *tsdb.Options
	m       *maint
	qs      map[string]storage.Querier
	qorder  []string
	ids     map[string]string // ulid -> B<n>
	nextID  int
	lastPt  string
	stepped int
}

func lbls(s int) labels.Labels {
	return labels.FromStrings("__name__", "m", "s", strconv.Itoa(s))
}

func errClass(err error) string {
	switch {
	case err == nil:
		return "ok"
	case errors.Is(err, storage.ErrOutOfBounds):
		return "oob"
	case errors.Is(err, storage.ErrOutOfOrderSample):
		return "ooo"
	case errors.Is(err, storage.ErrTooOldSample):
		return "tooold"
	case errors.Is(err, storage.ErrDuplicateSampleForTimestamp):
		return "dup"
	default:
		return "err:" + clean(err.Error())
	}
}

func clean(s string) string {
	s = strings.Map(func(r rune) rune {
		if r == ' ' || r == '\t' || r == '\n' {
			return '_'
		}
		return r
	}, s)
	if len(s) > 160 {
		s = s[:160]
	}
	return s
}

func (e *env) open() error {
	db, err := tsdb.Open(e.dir, promslog.NewNopLogger(), nil, e.opts, nil)
	if err != nil {
		return err
	}
	db.DisableCompactions()
	db.VerifInstallRaceCallbacks()
	e.db = db
	return nil
}

// runMaint is the body of the maintenance goroutine (its name is looked up on the stack dump).
func (e *env) runMaint(m *maint, kind string, a, b int64) {
	var err error
	p, pv := h.Try(func() {
		tsdb.VerifArmOOOSnapshotCallback()
		switch kind {
		case "compact":
			err = e.db.Compact(context.Background())
		case "ooo":
			err = e.db.CompactOOOHead(context.Background())
		case "head":
			err = e.db.CompactHead(tsdb.NewRangeHead(e.db.Head(), a, b))
		}
		tsdb.VerifDisarmOOOSnapshotCallback()
	})
	if p {
		err = fmt.Errorf("panic: %v", pv)
	}
	m.done <- err
}

func (e *env) startMaint(kind string, a, b int64) string {
	if e.db == nil {
		return "nodb"
	}
	if e.m != nil && !e.m.finished {
		return "busy"
	}
	m := &maint{arrive: make(chan string), resume: make(chan struct{}), done: make(chan error, 1)}
	e.m = m
	tsdb.VerifPointHook = func(p string) {
		m.arrive <- p
		<-m.resume
	}
	go e.runMaint(m, kind, a, b)
	return "started"
}

// maintWaiting inspects the stack of the maintenance goroutine: is it inside one of the protocol's waits?
func maintWaiting() string {
	buf := make([]byte, 1<<20)
	n := runtime.Stack(buf, true)
	for _, g := range strings.Split(string(buf[:n]), "\n\n") {
		if !strings.Contains(g, "(*env).runMaint(") {
			continue
		}
		switch {
		case strings.Contains(g, "WaitForPendingReadersInTimeRange"):
			return "head-readers"
		case strings.Contains(g, "WaitForPendingReadersForOOOChunksAtOrBefore"):
			return "ooo-readers"
		case strings.Contains(g, "(*Block).Close") && strings.Contains(g, "(*WaitGroup).Wait"):
			return "block-readers"
		}
		return ""
	}
	return ""
}

// step lets the maintenance goroutine run to its next point. Returns the event.
func (e *env) step() string {
	m := e.m
	if m == nil || m.finished {
		return "nomaint"
	}
	if m.parked {
		m.parked = false
		m.resume <- struct{}{}
	}
	start := time.Now()
	prev := ""
	// The reader waits poll every 500 ms: right after a `blocked` the goroutine may still be asleep inside
	// the wait although the blocking query has been closed meanwhile, so give it time to look again.
	need := 120 * time.Millisecond
	if m.wasBlocked {
		need = 900 * time.Millisecond
	}
	m.wasBlocked = false
	tick := time.NewTicker(40 * time.Millisecond)
	defer tick.Stop()
	for {
		select {
		case p := <-m.arrive:
			m.parked = true
			return p
		case err := <-m.done:
			m.finished = true
			tsdb.VerifPointHook = nil
			return "done:" + errClass(err)
		case <-tick.C:
			el := time.Since(start)
			if el > need {
				w := maintWaiting()
				if w != "" && w == prev {
					m.wasBlocked = true
					return "blocked:" + w
				}
				prev = w
			}
			if el > 20*time.Second && os.Getenv("RACE_DEBUG") != "" {
				buf := make([]byte, 1<<20)
				n := runtime.Stack(buf, true)
				fmt.Fprintln(os.Stderr, string(buf[:n]))
				os.Exit(5)
			}
			if el > 90*time.Second {
				return "stuck"
			}
		}
	}
}

type blockMeta struct {
	ULID       string `json:"ulid"`
	MinTime    int64  `json:"minTime"`
	MaxTime    int64  `json:"maxTime"`
	Compaction struct {
		Parents []struct {
			ULID string `json:"ulid"`
		} `json:"parents"`
		Hints []string `json:"hints"`
	} `json:"compaction"`
}

// observe lists the block directories, names new ones and returns (new=… token, disk ids).
func (e *env) observe() (string, []string) {
	ents, _ := os.ReadDir(e.dir)
	var metas []blockMeta
	var disk []string
	for _, en := range ents {
		if !en.IsDir() {
			continue
		}
		if _, err := ulid.ParseStrict(en.Name()); err != nil {
			continue
		}
		b, err := os.ReadFile(filepath.Join(e.dir, en.Name(), "meta.json"))
		if err != nil {
			continue
		}
		var bm blockMeta
		if json.Unmarshal(b, &bm) != nil {
			continue
		}
		if _, ok := e.ids[bm.ULID]; !ok {
			metas = append(metas, bm)
		}
		disk = append(disk, bm.ULID)
	}
	sort.Slice(metas, func(i, j int) bool {
		a, b := metas[i], metas[j]
		if a.MinTime != b.MinTime {
			return a.MinTime < b.MinTime
		}
		if a.MaxTime != b.MaxTime {
			return a.MaxTime < b.MaxTime
		}
		return a.ULID < b.ULID
	})
	var news []string
	for _, bm := range metas {
		e.nextID++
		e.ids[bm.ULID] = "B" + strconv.Itoa(e.nextID)
	}
	for _, bm := range metas {
		kind := "i"
		for _, hnt := range bm.Compaction.Hints {
			if hnt == "from-out-of-order" {
				kind = "o"
			}
		}
		var ps []string
		for _, p := range bm.Compaction.Parents {
			ps = append(ps, e.name(p.ULID))
		}
		par := "-"
		if len(ps) > 0 {
			sort.Slice(ps, func(i, j int) bool { return idNum(ps[i]) < idNum(ps[j]) })
			par = strings.Join(ps, "+")
		}
		news = append(news, fmt.Sprintf("%s:%d:%d:%s:%s", e.ids[bm.ULID], bm.MinTime, bm.MaxTime, kind, par))
	}
	nw := "-"
	if len(news) > 0 {
		nw = strings.Join(news, ",")
	}
	var dn []string
	for _, u := range disk {
		dn = append(dn, e.ids[u])
	}
	return nw, sortIDs(dn)
}

func idNum(s string) int {
	n, err := strconv.Atoi(strings.TrimPrefix(s, "B"))
	if err != nil {
		return 1 << 30
	}
	return n
}

func sortIDs(xs []string) []string {
	sort.Slice(xs, func(i, j int) bool { return idNum(xs[i]) < idNum(xs[j]) })
	return xs
}

func (e *env) name(u string) string {
	if n, ok := e.ids[u]; ok {
		return n
	}
	return "B?"
}

func join(xs []string) string {
	if len(xs) == 0 {
		return "-"
	}
	return strings.Join(xs, ",")
}

func (e *env) summary(disk []string) string {
	if e.db == nil {
		return "nodb"
	}
	st := e.db.VerifRaceState(true)
	var loaded []string
	for _, b := range e.db.Blocks() {
		loaded = append(loaded, e.name(b.Meta().ULID.String()))
	}
	b2i := func(b bool) int {
		if b {
			return 1
		}
		return 0
	}
	return fmt.Sprintf("hmin=%d flag=%d trunc=%d lastgc=%d ooogc=%d omin=%d omax=%d loaded=%s disk=%s",
		st.HeadMinTime, b2i(st.TruncationRunning), st.TruncationTime, b2i(st.LastGCRefSet), b2i(st.MinOOOMmapRefSet),
		st.MinOOOTime, st.MaxOOOTime, join(sortIDs(loaded)), join(disk))
}

// doStep executes one step and returns (op line, output line).
func (e *env) doStep() (string, string) {
	ev := e.step()
	if e.db == nil {
		return "step " + ev + " new=- hmin=0 omin=0", "nodb"
	}
	nw, disk := e.observe()
	// "delete.closed <ulid>" -> "delete.closed B3"; "gc.done truncateMemory" -> "gc.done.truncateMemory"
	if f := strings.Fields(ev); len(f) == 2 {
		if strings.HasPrefix(f[0], "delete.") {
			ev = f[0] + " " + e.name(f[1])
		} else {
			ev = f[0] + "." + f[1]
		}
	}
	e.lastPt = strings.Fields(ev)[0]
	st := e.db.VerifRaceState(true)
	return fmt.Sprintf("step %s new=%s hmin=%d omin=%d", ev, nw, st.HeadMinTime, st.MinOOOTime), e.summary(disk)
}

func (e *env) read(q storage.Querier) string {
	out := "?"
	old := debug.SetPanicOnFault(true)
	defer debug.SetPanicOnFault(old)
	p, pv := h.Try(func() { out = readAll(q) })
	if p {
		return "panic:" + clean(fmt.Sprint(pv))
	}
	return out
}

func readAll(q storage.Querier) string {
	ss := q.Select(context.Background(), true, nil, labels.MustNewMatcher(labels.MatchEqual, "__name__", "m"))
	type ser struct {
		idx int
		s   string
	}
	var out []ser
	for ss.Next() {
		s := ss.At()
		idx, _ := strconv.Atoi(s.Labels().Get("s"))
		it := s.Iterator(nil)
		var parts []string
		for vt := it.Next(); vt != chunkenc.ValNone; vt = it.Next() {
			if vt != chunkenc.ValFloat {
				parts = append(parts, "nonfloat")
				continue
			}
			t, v := it.At()
			if v == math.Trunc(v) && math.Abs(v) < 1e15 {
				parts = append(parts, fmt.Sprintf("%d:%d", t, int64(v)))
			} else {
				parts = append(parts, fmt.Sprintf("%d:x%016x", t, math.Float64bits(v)))
			}
		}
		if it.Err() != nil {
			return "err:" + clean(it.Err().Error())
		}
		if len(parts) > 0 {
			out = append(out, ser{idx, fmt.Sprintf("s%d=%s", idx, strings.Join(parts, ","))})
		}
	}
	if ss.Err() != nil {
		return "err:" + clean(ss.Err().Error())
	}
	sort.SliceStable(out, func(i, j int) bool { return out[i].idx < out[j].idx })
	if len(out) == 0 {
		return "-"
	}
	parts := make([]string, len(out))
	for i, s := range out {
		parts[i] = s.s
	}
	return strings.Join(parts, ";")
}

// exec runs one scripted op (everything but `step`, which re-observes) and returns its output.
func (e *env) exec(f []string) string {
	out := "bad-op"
	p, pv := h.Try(func() {
		switch f[0] {
		case "cfg":
			r, _ := strconv.ParseInt(f[1], 10, 64)
			w, _ := strconv.ParseInt(f[2], 10, 64)
			spc, _ := strconv.Atoi(f[3])
			oc, _ := strconv.ParseInt(f[4], 10, 64)
			o := tsdb.DefaultOptions()
			o.MinBlockDuration = r
			o.MaxBlockDuration = 9 * r
			o.OutOfOrderTimeWindow = w
			o.OutOfOrderCapMax = oc
			o.SamplesPerChunk = spc
			o.RetentionDuration = 0
			o.WALSegmentSize = 128 * 1024
			e.opts = o
			if e.db != nil {
				out = "already"
				return
			}
			if err := e.open(); err != nil {
				out = "err:" + clean(err.Error())
			} else {
				out = "ok"
			}
		case "put":
			if e.db == nil {
				out = "nodb"
				return
			}
			s, _ := strconv.Atoi(f[1])
			t, _ := strconv.ParseInt(f[2], 10, 64)
			v, _ := strconv.ParseInt(f[3], 10, 64)
			app := e.db.Appender(context.Background())
			if _, err := app.Append(0, lbls(s), t, float64(v)); err != nil {
				app.Rollback()
				out = errClass(err)
				return
			}
			out = errClass(app.Commit())
		case "maint":
			var a, b int64
			if f[1] == "head" {
				a, _ = strconv.ParseInt(f[2], 10, 64)
				b, _ = strconv.ParseInt(f[3], 10, 64)
			}
			out = e.startMaint(f[1], a, b)
		case "open":
			if e.db == nil {
				out = "nodb"
				return
			}
			if _, ok := e.qs[f[1]]; ok {
				out = "dupq"
				return
			}
			lo, _ := strconv.ParseInt(f[2], 10, 64)
			hi, _ := strconv.ParseInt(f[3], 10, 64)
			q, err := e.db.Querier(lo, hi)
			if err != nil {
				out = "err:" + clean(err.Error())
				return
			}
			e.qs[f[1]] = q
			e.qorder = append(e.qorder, f[1])
			out = "ok"
		case "read":
			q, ok := e.qs[f[1]]
			if !ok {
				out = "noq"
				return
			}
			out = e.read(q)
		case "close":
			q, ok := e.qs[f[1]]
			if !ok {
				out = "noq"
				return
			}
			delete(e.qs, f[1])
			out = errClass(q.Close())
		}
	})
	if p {
		out = "panic:" + clean(fmt.Sprint(pv))
	}
	return out
}

// finish closes everything a (possibly truncated) script left open.
func (e *env) finish() {
	for _, q := range e.qorder {
		if qq, ok := e.qs[q]; ok {
			h.Try(func() { qq.Close() })
			delete(e.qs, q)
		}
	}
	if e.m != nil && !e.m.finished {
		for i := 0; i < 400 && !e.m.finished; i++ {
			if ev := e.step(); ev == "stuck" {
				fmt.Fprintln(os.Stderr, "race: maintenance goroutine stuck at cleanup")
				os.Exit(4)
			}
		}
	}
	tsdb.VerifPointHook = nil
	tsdb.VerifDisarmOOOSnapshotCallback()
	if e.db != nil {
		e.db.Close()
		e.db = nil
	}
}

func newEnv() *env {
	return &env{dir: h.TempDir("vrace"), qs: map[string]storage.Querier{}, ids: map[string]string{}}
}

// ---------------------------------------------------------------- replay

func replayCase(c *h.Ctx, ops []string) {
	e := newEnv()
	defer os.RemoveAll(e.dir)
	defer e.finish()
	for _, op := range ops {
		f := strings.Fields(op)
		if len(f) == 0 {
			continue
		}
		if f[0] == "step" {
			o, out := e.doStep()
			c.Op(o, out)
			continue
		}
		c.Op(op, e.exec(f))
	}
}

// ---------------------------------------------------------------- generation

type gen struct {
	c    *h.Ctx
	e    *env
	r    *h.Rng
	R    int64
	dmin int64
	dmax int64
	nq   int
	held []heldQ
	fine bool
	pts  map[string]bool
	// bands: the time ranges of the out-of-order bursts (one per future OOO chunk) and narrow ranges next
	// to them; queries are drawn around them (a range lying entirely below/above the published OOO bounds
	// skips the OOO head reader)
	bands [][2]int64
	// directed: at every position each band is queried (no held queries)
	directed bool
}

type heldQ struct {
	id   string
	ttl  int
	read bool
}

func (g *gen) op(line string) string {
	out := g.e.exec(strings.Fields(line))
	g.c.Op(line, out)
	return out
}

// bounds: the pool the query ranges are drawn from — block boundaries ±1, the head's current window.
func (g *gen) pool() []int64 {
	st := g.e.db.VerifRaceState(true)
	p := []int64{g.dmin, g.dmax, st.HeadMinTime, st.HeadMinTime - 1, st.HeadMinTime + 1}
	if st.TruncationTime > math.MinInt64 {
		p = append(p, st.TruncationTime, st.TruncationTime-1, st.TruncationTime+1)
	}
	for k := int64(0); k*g.R <= g.dmax+g.R; k++ {
		p = append(p, k*g.R, k*g.R-1, k*g.R+1)
	}
	return p
}

// qrange draws a query range and names its class relative to the truncation boundary b in effect.
func (g *gen) qrange() (int64, int64, string) {
	st := g.e.db.VerifRaceState(true)
	b := st.HeadMinTime
	if st.TruncationRunning || g.e.lastPt == "trunc.timeStored" {
		b = st.TruncationTime
	} else if g.e.lastPt == "head.written" || g.e.lastPt == "reload.swapped" || g.e.lastPt == "idle" || g.e.lastPt == "start" {
		b = (st.HeadMinTime/g.R)*g.R + g.R
	}
	var lo, hi int64
	if len(g.bands) > 0 && g.r.Chance(35) {
		lo, hi = g.bandRange(g.bands[g.r.Intn(len(g.bands))])
		return lo, hi, "oooband"
	}
	switch g.r.Intn(7) {
	case 0: // everything
		lo, hi = g.dmin-5, g.dmax+5
	case 1: // fully below the boundary
		hi = b - 1 - g.r.Range(0, 2)*g.r.Range(0, g.R/2)
		lo = hi - g.r.Range(0, 2*g.R)
	case 2: // straddling
		lo = b - 1 - g.r.Range(0, g.R)
		hi = b + g.r.Range(0, g.R)
	case 3: // fully in the head
		lo = b + g.r.Range(0, 2)*g.r.Range(0, g.R/2)
		hi = lo + g.r.Range(0, 2*g.R)
	case 4: // single boundary timestamps
		lo = h.PickI64(g.r, g.pool())
		hi = lo
	default:
		p := g.pool()
		lo, hi = h.PickI64(g.r, p), h.PickI64(g.r, p)
		if lo > hi {
			lo, hi = hi, lo
		}
	}
	cls := "straddle"
	switch {
	case hi < b:
		cls = "below"
	case lo >= b:
		cls = "above"
	}
	return lo, hi, cls
}

// bandRange draws a narrow range around one out-of-order burst [b0,b1].
func (g *gen) bandRange(b [2]int64) (int64, int64) {
	d := []int64{0, 0, 1, 4, 5, 6, 11}
	switch g.r.Intn(6) {
	case 0: // exactly the burst
		return b[0], b[1]
	case 1: // one timestamp of it
		t := b[0] + g.r.Range(0, (b[1]-b[0])/10)*10
		return t, t
	case 2: // just below it (in-order samples only)
		return b[0] - 1 - h.PickI64(g.r, d) - g.r.Range(0, 40), b[0] - 1
	case 3: // its lower / upper half
		m := b[0] + (b[1]-b[0])/2
		if g.r.Chance(50) {
			return b[0] - h.PickI64(g.r, d), m
		}
		return m, b[1] + h.PickI64(g.r, d)
	default:
		return b[0] - h.PickI64(g.r, d), b[1] + h.PickI64(g.r, d)
	}
}

func (g *gen) immQ(lo, hi int64, cls string) {
	g.nq++
	id := "q" + strconv.Itoa(g.nq)
	g.op(fmt.Sprintf("open %s %d %d", id, lo, hi))
	g.op("read " + id)
	g.op("close " + id)
	g.c.Count("imm@" + g.e.lastPt + "/" + cls)
	g.c.NonTrivial("imm@" + g.e.lastPt + "/" + cls)
}

func (g *gen) newQ() (string, string) {
	g.nq++
	id := "q" + strconv.Itoa(g.nq)
	lo, hi, cls := g.qrange()
	g.op(fmt.Sprintf("open %s %d %d", id, lo, hi))
	return id, cls
}

// atPosition places queries at the current parked position.
func (g *gen) atPosition() {
	pos := g.e.lastPt
	if g.directed {
		for _, b := range g.bands {
			g.immQ(b[0], b[1], "oooband")
			if g.r.Chance(40) {
				lo, hi := g.bandRange(b)
				g.immQ(lo, hi, "oooband")
			}
		}
		if g.r.Chance(50) {
			g.immQ(g.dmin-1, g.dmax+1, "all")
		}
		return
	}
	nImm := g.r.Intn(3)
	for i := 0; i < nImm; i++ {
		id, cls := g.newQ()
		g.op("read " + id)
		g.op("close " + id)
		g.c.Count("imm@" + pos + "/" + cls)
		g.c.NonTrivial("imm@" + pos + "/" + cls)
	}
	if strings.HasPrefix(pos, "ooo.") && len(g.held) < 3 && g.r.Chance(50) {
		// a query over everything (so it reads the OOO chunks about to be collected), held for a while
		g.nq++
		id := "q" + strconv.Itoa(g.nq)
		g.op(fmt.Sprintf("open %s %d %d", id, g.dmin-1, g.dmax+1))
		g.held = append(g.held, heldQ{id: id, ttl: 3 + g.r.Intn(6)})
		g.c.Count("held@" + pos + "/all")
		g.c.NonTrivial("held@" + pos + "/all")
	}
	if len(g.held) < 3 && g.r.Chance(22) {
		id, cls := g.newQ()
		hq := heldQ{id: id, ttl: 1 + g.r.Intn(9)}
		if g.r.Chance(30) {
			g.op("read " + id)
		}
		g.held = append(g.held, hq)
		g.c.Count("held@" + pos + "/" + cls)
		g.c.NonTrivial("held@" + pos + "/" + cls)
	}
}

func (g *gen) release(i int) {
	hq := g.held[i]
	g.op("read " + hq.id)
	g.op("close " + hq.id)
	g.c.Count("heldread@" + g.e.lastPt)
	g.held = append(g.held[:i], g.held[i+1:]...)
}

func (g *gen) runMaintJob(line string) {
	// a query that is already open when the job starts and stays open for a long time: every wait of
	// the job that concerns it must block until it is released below
	g.e.lastPt = "idle"
	for i := 0; i < 2; i++ {
		if !g.directed && len(g.held) < 3 && g.r.Chance(45) {
			id, cls := g.newQ()
			g.held = append(g.held, heldQ{id: id, ttl: 5 + g.r.Intn(12)})
			g.c.Count("held@idle/" + cls)
			g.c.NonTrivial("held@idle/" + cls)
		}
	}
	if g.op(line) != "started" {
		return
	}
	g.e.lastPt = "start"
	for n := 0; n < 300; n++ {
		o, out := g.e.doStep()
		g.c.Op(o, out)
		ev := strings.Fields(o)[1]
		g.pts[strings.SplitN(ev, ":", 2)[0]] = true
		switch {
		case strings.HasPrefix(ev, "done") || ev == "nomaint" || ev == "stuck":
			return
		case strings.HasPrefix(ev, "blocked"):
			g.c.Count(ev)
			// the maintenance thread waits for a reader: sometimes look around first, then release one
			if g.r.Chance(30) {
				id, _ := g.newQ()
				g.op("read " + id)
				g.op("close " + id)
			}
			if len(g.held) == 0 {
				return // blocked with no open query: the judge reports it
			}
			g.release(g.r.Intn(len(g.held)))
			continue
		}
		g.c.Count("at:" + ev)
		for i := 0; i < len(g.held); {
			g.held[i].ttl--
			if g.held[i].ttl <= 0 {
				g.release(i)
			} else {
				i++
			}
		}
		g.atPosition()
	}
}

func genCase(c *h.Ctx, k int, fine bool) {
	r := c.Rng.Fork()
	e := newEnv()
	defer os.RemoveAll(e.dir)
	defer e.finish()
	g := &gen{c: c, e: e, r: r, pts: map[string]bool{}}
	c.Case(fmt.Sprintf("r%d-%d", c.Seed, k))
	g.R = h.Pick(r, []int64{1000, 1000, 600, 2000})
	withOOO := r.Chance(70) || k%4 != 3
	window := int64(0)
	if withOOO {
		window = 20 * g.R
	}
	spc := h.Pick(r, []int{4, 8, 120})
	oc := h.Pick(r, []int64{4, 4, 8, 32})
	// bursts mode: a SMALL out-of-order window and the out-of-order samples appended in the middle of
	// the in-order stream, in bursts of one chunk each, newest burst first — later m-mapped OOO chunks
	// of a series then hold older samples than its first one — and the head advanced past the window
	// afterwards, so that the GC's "headMaxt - window" fallback no longer covers them.
	bursts := withOOO && r.Chance(45)
	if bursts {
		window = h.Pick(r, []int64{g.R / 2, g.R * 6 / 10, g.R})
		oc = h.Pick(r, []int64{4, 4, 5, 8})
	}
	if g.op(fmt.Sprintf("cfg %d %d %d %d", g.R, window, spc, oc)) != "ok" {
		return
	}
	// in-order data: 2-3 series, steps of R/8..R/5, spanning 1.7 .. 4.6 block ranges from a random phase
	nser := 2 + r.Intn(2)
	t0 := r.Range(0, g.R-1) / 10 * 10
	if r.Chance(25) {
		t0 = h.Pick(r, []int64{0, g.R - 10, g.R})
	}
	span := g.R*17/10 + r.Range(0, g.R*29/10)
	stepT := (g.R/8 + r.Range(0, g.R/10)) / 10 * 10
	if stepT < 10 {
		stepT = 10
	}
	v := int64(0)
	g.dmin, g.dmax = t0, t0
	type rng struct{ lo, hi int64 }
	sr := make([]rng, nser)
	for s := 0; s < nser; s++ {
		lo, hi := t0, t0+span
		switch {
		case s == 1 && r.Chance(40): // a series that ends early: garbage-collected completely by truncation
			hi = t0 + r.Range(0, span/2)
		case s == 2 && r.Chance(40): // a series that starts late
			lo = t0 + r.Range(span/3, span*2/3)/10*10
		}
		sr[s] = rng{lo, hi}
	}
	var ts []int64
	for t := t0; t <= t0+span; t += stepT {
		ts = append(ts, t)
	}
	for b := (t0/g.R + 1) * g.R; b <= t0+span; b += g.R {
		// samples exactly on / just before a block boundary
		if r.Chance(50) {
			ts = append(ts, b)
		}
		if r.Chance(50) {
			ts = append(ts, b-10)
		}
	}
	sort.Slice(ts, func(i, j int) bool { return ts[i] < ts[j] })
	smax := make([]int64, nser)
	burstAt := int64(math.MaxInt64)
	if bursts {
		burstAt = t0 + span/2
		if span-window > window/2 {
			burstAt = t0 + r.Range(window/2, span-window)
		}
	}
	for i, t := range ts {
		if i > 0 && ts[i-1] == t {
			continue
		}
		if t > burstAt {
			burstAt = math.MaxInt64
			g.putBursts(&v, smax, window, int(oc))
		}
		for s := 0; s < nser; s++ {
			if t < sr[s].lo || t > sr[s].hi {
				continue
			}
			v++
			g.op(fmt.Sprintf("put %d %d %d 0", s, t, v))
			g.dmax = max(g.dmax, t)
			smax[s] = t
		}
	}
	if withOOO && !bursts {
		// out-of-order data: odd offsets (never equal to an in-order timestamp), anywhere below each
		// series' maximum, in bursts so that several m-mapped OOO chunks exist
		n := 6 + r.Intn(30)
		seen := map[string]bool{}
		for i := 0; i < n; i++ {
			s := r.Intn(nser)
			hi := smax[s]
			if hi-5 <= 0 {
				continue
			}
			t := r.Range(0, (hi-5)/10)*10 + 5
			if r.Chance(20) {
				b := r.Range(0, hi/g.R) * g.R
				t = b + h.Pick(r, []int64{-5, 5})
			}
			if t < 0 || t >= hi {
				continue
			}
			key := fmt.Sprint(s, ":", t)
			if seen[key] {
				continue
			}
			seen[key] = true
			v++
			g.op(fmt.Sprintf("put %d %d %d 1", s, t, v))
			g.dmin = min(g.dmin, t)
		}
	}
	// the maintenance plan
	var jobs []string
	pick := r.Intn(6)
	if k < 6 {
		pick = k // the first cases walk through the plans, so that a small quick tier covers them
	}
	if !fine {
		// Without the verifAt call sites only the two existing test callbacks park the maintenance
		// goroutine; block compaction is then unobservable, so only head and OOO jobs are run.
		pick = 6 + r.Intn(3)
	}
	T1 := (t0/g.R+1)*g.R - 1
	switch pick {
	case 6:
		jobs = []string{fmt.Sprintf("maint head %d %d", t0, T1), "maint ooo"}
	case 7:
		jobs = []string{"maint ooo", fmt.Sprintf("maint head %d %d", t0, t0+r.Range(1, min(span, 2*g.R)))}
	case 8:
		jobs = []string{fmt.Sprintf("maint head %d %d", t0, T1), fmt.Sprintf("maint head %d %d", T1+1, T1+g.R), "maint ooo"}
	case 0:
		jobs = []string{"maint compact"}
	case 1:
		jobs = []string{"maint ooo", "maint compact"}
	case 2:
		T := (t0/g.R+1)*g.R - 1
		if r.Chance(50) { // a truncation point inside a chunk: the block and the head overlap
			T = t0 + r.Range(1, min(span, 2*g.R))
		}
		jobs = []string{fmt.Sprintf("maint head %d %d", t0, T), "maint compact"}
	case 3:
		jobs = []string{"maint compact", "maint ooo"}
	case 4:
		T := (t0/g.R+1)*g.R - 1
		jobs = []string{fmt.Sprintf("maint head %d %d", t0, T), "maint ooo", "maint compact"}
	default:
		jobs = []string{"maint compact", "maint compact"}
	}
	for _, j := range jobs {
		g.runMaintJob(j)
		// between jobs and at the end: everything, and a few ranges
		for i := len(g.held) - 1; i >= 0; i-- {
			g.release(i)
		}
		id, _ := g.newQ()
		g.op("read " + id)
		g.op("close " + id)
	}
	g.op(fmt.Sprintf("open qa %d %d", g.dmin-1, g.dmax+1))
	g.op("read qa")
	g.op("close qa")
	if len(g.pts) > 6 {
		c.Count("cases:fine-grained-points")
	} else {
		c.Count("cases:callbacks-only")
	}
}

// bursts splits the odd-offset slots lo+5, lo+15, … < hi into nb contiguous groups of `size` timestamps and
// returns them in ARRIVAL order: newest group first (desc) or shuffled; inside a group ascending or shuffled.
func burstsOf(r *h.Rng, lo, hi int64, size, nb int, desc bool) [][]int64 {
	var slots []int64
	for t := lo/10*10 + 5; t < hi; t += 10 {
		if t > lo {
			slots = append(slots, t)
		}
	}
	if size <= 0 {
		return nil
	}
	if len(slots) < size*nb {
		nb = len(slots) / size
	}
	free := len(slots) - size*nb
	var groups [][]int64
	pos := 0
	for i := 0; i < nb; i++ {
		if free > 0 {
			gap := r.Intn(free/2 + 1)
			free -= gap
			pos += gap
		}
		groups = append(groups, append([]int64(nil), slots[pos:pos+size]...))
		pos += size
	}
	shuffle := func(n int, swap func(i, j int)) {
		for i := n - 1; i > 0; i-- {
			swap(i, r.Intn(i+1))
		}
	}
	if desc {
		for i, j := 0, len(groups)-1; i < j; i, j = i+1, j-1 {
			groups[i], groups[j] = groups[j], groups[i]
		}
	} else {
		shuffle(len(groups), func(i, j int) { groups[i], groups[j] = groups[j], groups[i] })
	}
	for _, gr := range groups {
		if r.Chance(30) {
			shuffle(len(gr), func(i, j int) { gr[i], gr[j] = gr[j], gr[i] })
		}
	}
	return groups
}

// putBursts appends, for every series that has in-order samples already, 2-4 out-of-order bursts inside the
// out-of-order window behind the head's current maximum (and below the series' own maximum), each filling
// one OOO chunk, plus sometimes a short tail that stays in the OOO head chunk.
func (g *gen) putBursts(v *int64, smax []int64, window int64, capMax int) {
	r := g.r
	headMax := int64(math.MinInt64)
	for _, m := range smax {
		headMax = max(headMax, m)
	}
	for s := range smax {
		lo := max(headMax-window, 0)
		hi := smax[s]
		if hi-lo < 30 {
			continue
		}
		size := capMax
		if r.Chance(25) {
			size = capMax + 1 // a burst straddling two chunks
		}
		groups := burstsOf(r, lo, hi, size, 2+r.Intn(3), r.Chance(65))
		if len(groups) > 0 && r.Chance(60) {
			// the tail: 1..cap-1 samples at the top or the bottom of the window; the first of them m-maps the last burst
			used := map[int64]bool{}
			for _, gr := range groups {
				for _, t := range gr {
					used[t] = true
				}
			}
			var tail []int64
			for t := lo/10*10 + 5; t < hi && len(tail) < 1+r.Intn(capMax); t += 10 {
				if t > lo && !used[t] {
					tail = append(tail, t)
				}
			}
			if r.Chance(60) {
				tail = nil
				for t := (hi-1)/10*10 + 5; t > lo && len(tail) < 1+r.Intn(capMax); t -= 10 {
					if t < hi && !used[t] {
						tail = append(tail, t)
					}
				}
			}
			if len(tail) > 0 {
				groups = append(groups, tail)
			}
		}
		for _, gr := range groups {
			blo, bhi := gr[0], gr[0]
			for _, t := range gr {
				*v++
				g.op(fmt.Sprintf("put %d %d %d 1", s, t, *v))
				g.dmin = min(g.dmin, t)
				blo, bhi = min(blo, t), max(bhi, t)
			}
			g.bands = append(g.bands, [2]int64{blo, bhi})
		}
	}
}

// genDirected: the boundary histories of the published out-of-order bounds (Head.MinOOOTime/MaxOOOTime,
// recomputed by the head GC from the surviving OOO chunks). One or two series; OOO bursts of exactly one
// chunk each appended newest-first while they are inside the OOO window; the head then advances far
// beyond the window; a compaction truncates the in-order head (GC) before the OOO head is compacted, and
// at EVERY protocol point each burst's range is queried on its own.
//
//	variant 0: two m-mapped chunks (newest first) + a newer sample in the OOO head chunk; db.Compact
//	variant 1: two series, the first with its chunks oldest-first, the second newest-first (the overall
//	           minimum sits in the second series' LAST m-mapped chunk); db.Compact
//	variant 2: three m-mapped chunks, the oldest in the middle/last; CompactHead, queries while idle
//	           (OOO block not written for an arbitrarily long time), then CompactOOOHead
//	variant 3: the oldest samples only in the OOO HEAD chunk (never m-mapped before the snapshot), the
//	           newest only in the first m-mapped chunk; db.Compact
func genDirected(c *h.Ctx, k int) {
	r := c.Rng.Fork()
	e := newEnv()
	defer os.RemoveAll(e.dir)
	defer e.finish()
	g := &gen{c: c, e: e, r: r, pts: map[string]bool{}, directed: true}
	c.Case(fmt.Sprintf("d%d-%d", c.Seed, k))
	variant := k % 4
	g.R = 1000
	capMax := 4
	window := int64(600)
	stepT := int64(50)
	if k >= 4 {
		capMax = h.Pick(r, []int{4, 4, 5, 6})
		window = h.Pick(r, []int64{500, 600, 700, 900})
		stepT = h.Pick(r, []int64{50, 100, 70})
	}
	spc := h.Pick(r, []int{4, 8, 120})
	if g.op(fmt.Sprintf("cfg %d %d %d %d", g.R, window, spc, capMax)) != "ok" {
		return
	}
	nser := 1
	if variant == 1 {
		nser = 2
	}
	t1 := int64(900)
	if k >= 4 {
		t1 = 700 + 10*r.Range(0, 40)
	}
	v := int64(0)
	smax := make([]int64, nser)
	inorder := func(from, to int64) {
		for t := from; t <= to; t += stepT {
			for s := 0; s < nser; s++ {
				v++
				g.op(fmt.Sprintf("put %d %d %d 0", s, t, v))
				smax[s] = t
				g.dmax = max(g.dmax, t)
			}
		}
	}
	inorder(0, t1)
	lo := max(smax[0]-window, 0)
	for s := 0; s < nser; s++ {
		nb := 2
		if variant == 2 {
			nb = 3
		}
		groups := burstsOf(r, lo, smax[s], capMax, nb, true)
		if len(groups) < 2 {
			return
		}
		for _, gr := range groups {
			sort.Slice(gr, func(i, j int) bool { return gr[i] < gr[j] })
		}
		switch {
		case variant == 1 && s == 0:
			groups[0], groups[len(groups)-1] = groups[len(groups)-1], groups[0] // oldest first
		case variant == 2 && r.Chance(50):
			groups[0], groups[1] = groups[1], groups[0] // middle, newest, oldest
		}
		// the tail m-maps the last burst and stays in the OOO head chunk
		used := map[int64]bool{}
		for _, gr := range groups {
			for _, t := range gr {
				used[t] = true
			}
		}
		var tail []int64
		if variant == 3 {
			// oldest of all, below every burst
			for t := lo/10*10 + 5; t < smax[s] && len(tail) < 2; t += 10 {
				if t > lo && !used[t] {
					tail = append(tail, t)
				}
			}
		} else {
			for t := (smax[s]-1)/10*10 + 5; t > lo && len(tail) < 1; t -= 10 {
				if t < smax[s] && !used[t] {
					tail = append(tail, t)
				}
			}
		}
		if len(tail) > 0 {
			groups = append(groups, tail)
		}
		for _, gr := range groups {
			blo, bhi := gr[0], gr[0]
			for _, t := range gr {
				v++
				g.op(fmt.Sprintf("put %d %d %d 1", s, t, v))
				g.dmin = min(g.dmin, t)
				blo, bhi = min(blo, t), max(bhi, t)
			}
			g.bands = append(g.bands, [2]int64{blo, bhi})
		}
	}
	// the head moves on: compactable ([0,R) becomes a block) and headMaxt - window above every OOO sample
	t2 := int64(2000)
	if k >= 4 {
		t2 = 1900 + 10*r.Range(0, 40)
	}
	inorder((t1/stepT+1)*stepT, t2)
	g.immQ(g.dmin-1, g.dmax+1, "all")
	var jobs []string
	if variant == 2 {
		jobs = []string{fmt.Sprintf("maint head 0 %d", g.R-1), "maint ooo"}
	} else {
		jobs = []string{"maint compact"}
	}
	for _, j := range jobs {
		g.runMaintJob(j)
		g.e.lastPt = "idle"
		g.atPosition()
	}
	g.op(fmt.Sprintf("open qa %d %d", g.dmin-1, g.dmax+1))
	g.op("read qa")
	g.op("close qa")
	c.Count("cases:directed-ooo-bounds")
}

// finePoints reports whether the checkout has the verifAt call sites (fixes/hooks-C06.patch): a
// throw-away head compaction is watched for the point `head.written`.
func finePoints() bool {
	e := newEnv()
	defer os.RemoveAll(e.dir)
	e.exec(strings.Fields("cfg 1000 0 120 32"))
	for t := int64(0); t <= 2500; t += 100 {
		e.exec(strings.Fields(fmt.Sprintf("put 0 %d 1 0", t)))
	}
	seen := false
	tsdb.VerifPointHook = func(p string) {
		if p == "head.written" {
			seen = true
		}
	}
	if e.db != nil {
		e.db.CompactHead(tsdb.NewRangeHead(e.db.Head(), 0, 999))
	}
	tsdb.VerifPointHook = nil
	e.finish()
	return seen
}

func main() {
	c := h.Init()
	if c.Replay != "" {
		for _, cs := range c.ReplayCases() {
			c.Case(strings.TrimPrefix(cs[0], "case "))
			replayCase(c, cs[1:])
		}
		c.Finish()
		return
	}
	fine := finePoints()
	// directed cases first: 4 in the quick tier, 16 (with varied parameters) in the thorough one
	nd := 4
	if c.N >= 10 {
		nd = 16
	}
	for k := 0; k < nd; k++ {
		genDirected(c, k)
	}
	for k := 0; k < c.N; k++ {
		genCase(c, k, fine)
	}
	c.Finish()
}
