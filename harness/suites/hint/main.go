// Suite hint (C12): counter-reset hints of native histogram samples as queries return them.
//
// merge cases (real chunks per source, real storage.ChainedSeriesMerge / chainSampleIterator):
//   sapp <src> <cut> <t> <hist>   -> <same|new|recoded> hdr=<byte> n=<num>     append to source <src>'s chunks
//   merge <k>                     -> t=hist;…     samples of the vertical merge of sources 0..k-1
// DB cases (real tsdb.DB with an out-of-order window; head, OOO head, blocks, overlapping blocks):
//   dcfg <chunkRange> <oooWindow>
//   dapp <t> <hist> <adm>         -> ok | err-…        (adm = observed admission, oracle for the model)
//   dflush | dooo | dcompact | dreopen              -> ok | err-…
//     a persist op (dflush/dooo/dcompact) that failed while re-encoding a chunk is emitted as
//     `<op> reencode-failed` -> err-reencode   (observed outcome, oracle: the judge classifies it by the
//     accepted samples — finding C11-F1 — or flags it); any d-op before dcfg -> no-db
//   dq <mint> <maxt> <hints>      -> t=sem;…     semantic form + hint (hints = observed, oracle)
package main

import (
	"context"
	"fmt"
	"math"
	"os"
	"strconv"
	"strings"

	"github.com/prometheus/common/promslog"

	"github.com/prometheus/prometheus/model/histogram"
	"github.com/prometheus/prometheus/model/labels"
	"github.com/prometheus/prometheus/storage"
	"github.com/prometheus/prometheus/tsdb"
	"github.com/prometheus/prometheus/tsdb/chunkenc"

	"verif/harness/h"
	"verif/harness/histkit"
)

// ---------------------------------------------------------------- sources built from real chunks

type source struct {
	chunks []chunkenc.Chunk
	app    chunkenc.Appender
}

func encOf(x histkit.H) chunkenc.Encoding {
	if x.Float() {
		return chunkenc.EncFloatHistogram
	}
	return chunkenc.EncHistogram
}

func (e *source) appendOp(cut bool, t int64, x histkit.H) string {
	var prev chunkenc.Appender
	if len(e.chunks) == 0 || cut || e.chunks[len(e.chunks)-1].Encoding() != encOf(x) {
		prev = e.app
		nc, err := chunkenc.NewEmptyChunk(encOf(x))
		if err != nil {
			return "err-newchunk"
		}
		e.chunks = append(e.chunks, nc)
		if e.app, err = nc.Appender(); err != nil {
			return "err-appender"
		}
	}
	var (
		newChunk chunkenc.Chunk
		recoded  bool
		app      chunkenc.Appender
		err      error
	)
	if x.Float() {
		newChunk, recoded, app, err = e.app.AppendFloatHistogram(prev, 0, t, x.F, false)
	} else {
		newChunk, recoded, app, err = e.app.AppendHistogram(prev, 0, t, x.I, false)
	}
	if err != nil {
		return "err-append"
	}
	e.app = app
	out := "same"
	if newChunk != nil {
		if recoded {
			e.chunks[len(e.chunks)-1] = newChunk
			out = "recoded"
		} else {
			e.chunks = append(e.chunks, newChunk)
			out = "new"
		}
	}
	last := e.chunks[len(e.chunks)-1]
	return fmt.Sprintf("%s hdr=%d n=%d", out, int(last.Bytes()[2]&0xC0), last.NumSamples())
}

// chunksIter walks the real iterators of a list of chunks one after the other.
type chunksIter struct {
	chunks []chunkenc.Chunk
	i      int
	cur    chunkenc.Iterator
}

func (c *chunksIter) Next() chunkenc.ValueType {
	for {
		if c.cur == nil {
			if c.i >= len(c.chunks) {
				return chunkenc.ValNone
			}
			c.cur = c.chunks[c.i].Iterator(nil)
			c.i++
		}
		if v := c.cur.Next(); v != chunkenc.ValNone {
			return v
		}
		if c.cur.Err() != nil {
			return chunkenc.ValNone
		}
		c.cur = nil
	}
}

func (c *chunksIter) Seek(t int64) chunkenc.ValueType {
	// like populateWithDelSeriesIterator: stay if already there, else move forward
	if c.cur != nil {
		if v := c.cur.Seek(t); v != chunkenc.ValNone {
			return v
		}
		c.cur = nil
	}
	for {
		v := c.Next()
		if v == chunkenc.ValNone || c.cur.AtT() >= t {
			return v
		}
	}
}

func (c *chunksIter) At() (int64, float64) { return c.cur.At() }
func (c *chunksIter) AtHistogram(x *histogram.Histogram) (int64, *histogram.Histogram) {
	return c.cur.AtHistogram(x)
}
func (c *chunksIter) AtFloatHistogram(x *histogram.FloatHistogram) (int64, *histogram.FloatHistogram) {
	return c.cur.AtFloatHistogram(x)
}
func (c *chunksIter) AtT() int64  { return c.cur.AtT() }
func (c *chunksIter) AtST() int64 { return 0 }
func (c *chunksIter) Err() error {
	if c.cur != nil {
		return c.cur.Err()
	}
	return nil
}

var lset = labels.FromStrings("__name__", "nh", "job", "verif")

func mergeOp(srcs []*source, k int) string {
	var series []storage.Series
	for i := 0; i < k && i < len(srcs); i++ {
		s := srcs[i]
		series = append(series, &storage.SeriesEntry{Lset: lset, SampleIteratorFn: func(chunkenc.Iterator) chunkenc.Iterator {
			return &chunksIter{chunks: s.chunks}
		}})
	}
	if len(series) == 0 {
		return "-"
	}
	m := storage.ChainedSeriesMerge(series...)
	ss, er := histkit.Drain(m.Iterator(nil))
	if er != "" {
		return er
	}
	return histkit.SamplesStr(ss)
}

// ---------------------------------------------------------------- DB

type dbEnv struct {
	dir  string
	db   *tsdb.DB
	opts *tsdb.Options
}

func (e *dbEnv) open() error {
	db, err := tsdb.Open(e.dir, promslog.NewNopLogger(), nil, e.opts, nil)
	if err != nil {
		return err
	}
	db.DisableCompactions()
	e.db = db
	return nil
}

func (e *dbEnv) close() {
	if e.db != nil {
		e.db.Close()
		e.db = nil
	}
}

func errClass(err error) string {
	if err == nil {
		return "ok"
	}
	s := err.Error()
	switch {
	case strings.Contains(s, "re-encoding"):
		return "err-reencode"
	case strings.Contains(s, "out of order"):
		return "err-ooo"
	case strings.Contains(s, "out of bounds"):
		return "err-oob"
	case strings.Contains(s, "duplicate"):
		return "err-dup"
	case strings.Contains(s, "too old"):
		return "err-too-old"
	}
	return "err-other:" + strings.ReplaceAll(s, " ", "_")
}

func (e *dbEnv) appendOp(t int64, x histkit.H) string {
	app := e.db.Appender(context.Background())
	_, err := app.AppendHistogram(0, lset, t, x.I, x.F)
	if err != nil {
		app.Rollback()
		return errClass(err)
	}
	if err := app.Commit(); err != nil {
		return "commit-" + errClass(err)
	}
	return "ok"
}

func (e *dbEnv) query(mint, maxt int64) ([]histkit.Sample, string) {
	q, err := e.db.Querier(mint, maxt)
	if err != nil {
		return nil, "err-querier"
	}
	defer q.Close()
	ss := q.Select(context.Background(), true, nil, labels.MustNewMatcher(labels.MatchEqual, "__name__", "nh"))
	var all []histkit.Sample
	n := 0
	for ss.Next() {
		n++
		s, er := histkit.Drain(ss.At().Iterator(nil))
		if er != "" {
			return nil, er
		}
		all = append(all, s...)
	}
	if ss.Err() != nil {
		return nil, "err-select:" + errClass(ss.Err())
	}
	if n > 1 {
		return nil, "err-multiple-series"
	}
	return all, ""
}

func hintsOf(ss []histkit.Sample) string {
	if len(ss) == 0 {
		return "-"
	}
	var b strings.Builder
	for _, s := range ss {
		if s.H.F != nil {
			b.WriteByte('0' + byte(s.H.F.CounterResetHint))
		} else {
			b.WriteByte('0' + byte(s.H.I.CounterResetHint))
		}
	}
	return b.String()
}

// ---------------------------------------------------------------- running a case

func runCase(c *h.Ctx, ops []string) {
	var srcs []*source
	de := &dbEnv{}
	defer func() {
		de.close()
		if de.dir != "" {
			os.RemoveAll(de.dir)
		}
	}()
	for _, op := range ops {
		f := strings.Fields(op)
		out := "bad-op"
		emit := op
		// A persist op that failed while re-encoding a chunk (finding C11-F1: a gauge chunk holding a
		// staleness marker cannot be re-encoded; reported by suite hist for CompactHead, reached here also
		// through CompactOOOHead / Compact) says so in the op line: this suite only looks at hints, the data
		// stays readable from the head / OOO head, and the judge decides by the accepted samples whether the
		// failure is that finding (observation) or anything else (op-failed).
		reencode := func(op, out string) string {
			if out == "err-reencode" {
				c.Count(op + ":reencode-failed")
				return op + " reencode-failed"
			}
			return op
		}
		p, pv := h.Try(func() {
			if strings.HasPrefix(f[0], "d") && f[0] != "dcfg" && de.db == nil {
				out = "no-db" // replayed / shrunk op list without its dcfg line: not a failure of prometheus
				return
			}
			switch f[0] {
			case "sapp":
				si, _ := strconv.Atoi(f[1])
				for len(srcs) <= si {
					srcs = append(srcs, &source{})
				}
				t, _ := strconv.ParseInt(f[3], 10, 64)
				out = srcs[si].appendOp(f[2] == "1", t, histkit.Parse(f[4]))
			case "merge":
				k, _ := strconv.Atoi(f[1])
				out = mergeOp(srcs, k)
				c.Count("merge:" + f[1])
			case "dcfg":
				cr, _ := strconv.ParseInt(f[1], 10, 64)
				ooo, _ := strconv.ParseInt(f[2], 10, 64)
				o := tsdb.DefaultOptions()
				o.MinBlockDuration, o.MaxBlockDuration = cr, cr
				o.OutOfOrderTimeWindow = ooo
				o.OutOfOrderCapMax = 8
				o.RetentionDuration = 0
				o.WALSegmentSize = 128 * 1024
				de.opts = o
				de.dir = h.TempDir("vhint")
				if err := de.open(); err != nil {
					out = "err-open"
				} else {
					out = "ok"
				}
			case "dapp":
				t, _ := strconv.ParseInt(f[1], 10, 64)
				out = de.appendOp(t, histkit.Parse(f[2]))
				c.Count("dapp:" + out)
				emit = fmt.Sprintf("dapp %s %s %s", f[1], f[2], out)
			case "dreopen":
				if err := de.db.Close(); err != nil {
					out = "err-close"
					return
				}
				de.db = nil
				if err := de.open(); err != nil {
					out = "err-open:" + strings.ReplaceAll(err.Error(), " ", "_")
				} else {
					out = "ok"
				}
			case "dcompact":
				out = errClass(de.db.Compact(context.Background()))
				emit = reencode("dcompact", out)
				c.Count(fmt.Sprintf("blocks:%d", len(de.db.Blocks())))
			case "dooo":
				out = errClass(de.db.CompactOOOHead(context.Background()))
				emit = reencode("dooo", out)
				c.Count(fmt.Sprintf("blocks:%d", len(de.db.Blocks())))
			case "dflush":
				hd := de.db.Head()
				if hd.NumSeries() == 0 || hd.MinTime() > hd.MaxTime() {
					out = "ok"
					return
				}
				out = errClass(de.db.CompactHead(tsdb.NewRangeHead(hd, hd.MinTime(), hd.MaxTime())))
				emit = reencode("dflush", out)
				c.Count(fmt.Sprintf("blocks:%d", len(de.db.Blocks())))
			case "dq":
				mint, _ := strconv.ParseInt(f[1], 10, 64)
				maxt, _ := strconv.ParseInt(f[2], 10, 64)
				ss, er := de.query(mint, maxt)
				if er != "" {
					out = er
					return
				}
				emit = fmt.Sprintf("dq %s %s %s", f[1], f[2], hintsOf(ss))
				out = histkit.SemSamplesStr(ss)
				for _, s := range ss {
					if s.H.F != nil {
						c.Count(fmt.Sprintf("hint:%d", s.H.F.CounterResetHint))
					} else {
						c.Count(fmt.Sprintf("hint:%d", s.H.I.CounterResetHint))
					}
				}
			}
		})
		if p {
			out = "panic:" + strings.ReplaceAll(fmt.Sprint(pv), " ", "_")
			c.Count("panic:" + f[0])
		}
		c.Count("op:" + f[0])
		c.Op(emit, out)
	}
}

// ---------------------------------------------------------------- generators

func genMergeCase(c *h.Ctx, r *h.Rng, maxLen int) []string {
	g := histkit.NewGen(r, c.Count)
	g.Mixed = false
	k := 1 + r.Intn(4)
	n := 2 + r.Intn(maxLen)
	var ops []string
	cur := r.Intn(k)
	for i := 0; i < n; i++ {
		t, x := g.Step()
		if r.Chance(25) {
			cur = r.Intn(k)
		}
		tok := histkit.Tok(x)
		cut := func() int {
			if r.Chance(6) {
				return 1
			}
			return 0
		}
		ops = append(ops, fmt.Sprintf("sapp %d %d %d %s", cur, cut(), t, tok))
		// the same sample in further sources (overlap)
		for j := 0; j < k; j++ {
			if j != cur && r.Chance(12) {
				ops = append(ops, fmt.Sprintf("sapp %d %d %d %s", j, cut(), t, tok))
			}
		}
		if r.Chance(3) {
			ops = append(ops, fmt.Sprintf("merge %d", 1+r.Intn(k)))
		}
	}
	ops = append(ops, fmt.Sprintf("merge %d", k))
	if k > 1 {
		ops = append(ops, fmt.Sprintf("merge %d", 1+r.Intn(k)))
	}
	return ops
}

func genDBCase(c *h.Ctx, r *h.Rng, maxLen int) []string {
	g := histkit.NewGen(r, c.Count)
	cr := h.PickI64(r, []int64{3600000, 7200000, 600000})
	ooo := h.PickI64(r, []int64{1800000, 7200000, 36000000, 300000})
	ops := []string{fmt.Sprintf("dcfg %d %d", cr, ooo)}
	n := 2 + r.Intn(maxLen)
	type pend struct {
		t   int64
		tok string
	}
	var held []pend
	var times []int64
	full := fmt.Sprintf("dq %d %d -", int64(math.MinInt64), int64(math.MaxInt64))
	for i := 0; i < n; i++ {
		t, x := g.Step()
		tok := histkit.Tok(x)
		times = append(times, t)
		if r.Chance(25) {
			held = append(held, pend{t, tok}) // comes later, out of order
		} else {
			ops = append(ops, fmt.Sprintf("dapp %d %s -", t, tok))
		}
		if len(held) > 0 && r.Chance(30) {
			j := r.Intn(len(held))
			ops = append(ops, fmt.Sprintf("dapp %d %s -", held[j].t, held[j].tok))
			held = append(held[:j], held[j+1:]...)
		}
		switch {
		case r.Chance(3):
			ops = append(ops, "dooo")
		case r.Chance(2):
			ops = append(ops, "dreopen")
		case r.Chance(2):
			ops = append(ops, "dcompact")
		case r.Chance(4):
			ops = append(ops, full)
		case r.Chance(3):
			a, b := times[r.Intn(len(times))], times[r.Intn(len(times))]
			if a > b {
				a, b = b, a
			}
			ops = append(ops, fmt.Sprintf("dq %d %d -", a, b))
		}
	}
	for _, p := range held {
		ops = append(ops, fmt.Sprintf("dapp %d %s -", p.t, p.tok))
	}
	ops = append(ops, full, "dooo", full, "dreopen", full)
	if r.Bool() {
		ops = append(ops, "dflush", full)
	}
	if r.Bool() {
		ops = append(ops, "dcompact", full)
	}
	return ops
}

func main() {
	c := h.Init()
	defer c.Finish()
	if c.Replay != "" {
		for _, cs := range c.ReplayCases() {
			c.Case(strings.TrimPrefix(cs[0], "case "))
			runCase(c, cs[1:])
		}
		return
	}
	maxLen := 50
	if c.Tier == "thorough" {
		maxLen = 200
	}
	for i := 0; i < c.N; i++ {
		r := c.Rng.Fork()
		var ops []string
		var id string
		if i%3 != 2 {
			ops, id = genMergeCase(c, r, maxLen), fmt.Sprintf("M%d", i)
		} else {
			ops, id = genDBCase(c, r, maxLen), fmt.Sprintf("D%d", i)
		}
		c.Case(id)
		c.NonTrivial(strings.Join(ops, ";"))
		runCase(c, ops)
	}
}
