// Suite promqlsel (C28): instant / range selectors, offset and @ modifiers and subqueries evaluated by the
// real PromQL engine (promql.NewEngine) over a real TSDB head, one series per case; instant queries take the
// from-scratch path (matrixSelector / one vectorSelectorSingle), range queries the incremental path
// (matrixIterSlice window reuse + ReduceDelta, MemoizedSeriesIterator forward-only Seek/PeekPrev).
//
// ops:  lb <lookback_ms>                          lookback delta of the following queries (per-query QueryOpts)
//       s <t_ms> f <value f64 hex>                append a float sample (stale marker = 7ff0000000000002)
//       s <t_ms> h <sum f64 hex>                  append a native histogram (Count 0, Sum as given; stale marker likewise)
//       q <kind> <range> <sqstep> <off> <at> <ioff> <start> <end> <step>
//           kind: sel    m offset <off> @ <at>
//                 ts     timestamp(m offset <off> @ <at>)
//                 cnt    count_over_time(m[<range>] offset <off> @ <at>)
//                 sum    sum_over_time(m[<range>] offset <off> @ <at>)            (float-only series, else `skip`)
//                 last   last_over_time(m[<range>] offset <off> @ <at>)
//                 sqts   timestamp(m offset <ioff>)[<range>:<sqstep>] offset <off> @ <at>     (instant only)
//                 sqcnt / sqmin / sqmax / sqlast   count|min|max|last_over_time( <the sqts subquery> )
//           at: - | <ms> | start | end ;  step = 0: instant query at <start>, else range query
// out:  s -> ok | err ;  lb -> ok
//       q -> `r -` | `r <ts>:<val> <ts>:<val> …` | skip | err | panic | multi
//            val: sel/last: f<bits> | h<sum bits>; ts, sq*: integer (ms; count for cnt/sqcnt); sum: <bits>
package main

import (
	"context"
	"fmt"
	"math"
	"os"
	"sort"
	"strconv"
	"strings"
	"time"

	"github.com/prometheus/prometheus/model/histogram"
	"github.com/prometheus/prometheus/model/labels"
	"github.com/prometheus/prometheus/promql"
	"github.com/prometheus/prometheus/promql/parser"
	"github.com/prometheus/prometheus/tsdb"
	"github.com/prometheus/prometheus/util/teststorage"

	"verif/harness/h"
)

const staleBits = 0x7ff0000000000002

type env struct {
	st     *teststorage.TestStorage
	eng    *promql.Engine
	serial int
}

func die(err error) {
	fmt.Fprintln(os.Stderr, "harness error:", err)
	os.Exit(3)
}

func newEnv() *env {
	st, err := teststorage.NewWithError(func(opt *tsdb.Options) {
		opt.WALSegmentSize = -1
		opt.EnableExemplarStorage = false
	})
	if err != nil {
		die(err)
	}
	st.DisableCompactions()
	eng := promql.NewEngine(promql.EngineOpts{
		MaxSamples:               10000000,
		Timeout:                  100 * time.Second,
		NoStepSubqueryIntervalFn: func(int64) int64 { return 60000 },
		EnableAtModifier:         true,
		EnableNegativeOffset:     true,
		LookbackDelta:            5 * time.Minute,
		Parser:                   parser.NewParser(parser.Options{}),
	})
	e := &env{st: st, eng: eng}
	// Pin the head's time origin so that every later timestamp (within a few hours of 0, both signs) is appendable.
	app := st.Appender(context.Background())
	if _, err := app.Append(0, labels.FromStrings("__name__", "origin"), 0, 1); err != nil {
		die(err)
	}
	if err := app.Commit(); err != nil {
		die(err)
	}
	return e
}

func durStr(ms int64) string { return strconv.FormatInt(ms, 10) + "ms" }

type qop struct {
	kind                              string
	rng, sqstep, off                  int64
	at                                string
	ioff, start, end, step            int64
	hasHist                           bool
}

func modifiers(off int64, at string) string {
	s := ""
	if off != 0 {
		s += " offset " + durStr(off)
	}
	switch at {
	case "-":
	case "start":
		s += " @ start()"
	case "end":
		s += " @ end()"
	default:
		ms, _ := strconv.ParseInt(at, 10, 64)
		s += " @ " + strconv.FormatFloat(float64(ms)/1000, 'f', 3, 64)
	}
	return s
}

func (q *qop) expr(id string) string {
	m := fmt.Sprintf(`m{c="%s"}`, id)
	mod := modifiers(q.off, q.at)
	sq := func() string {
		in := m
		if q.ioff != 0 {
			in += " offset " + durStr(q.ioff)
		}
		return fmt.Sprintf("timestamp(%s)[%s:%s]%s", in, durStr(q.rng), durStr(q.sqstep), mod)
	}
	switch q.kind {
	case "sel":
		return m + mod
	case "ts":
		return "timestamp(" + m + mod + ")"
	case "cnt":
		return fmt.Sprintf("count_over_time(%s[%s]%s)", m, durStr(q.rng), mod)
	case "sum":
		return fmt.Sprintf("sum_over_time(%s[%s]%s)", m, durStr(q.rng), mod)
	case "last":
		return fmt.Sprintf("last_over_time(%s[%s]%s)", m, durStr(q.rng), mod)
	case "sqts":
		return sq()
	case "sqcnt":
		return "count_over_time(" + sq() + ")"
	case "sqmin":
		return "min_over_time(" + sq() + ")"
	case "sqmax":
		return "max_over_time(" + sq() + ")"
	case "sqlast":
		return "last_over_time(" + sq() + ")"
	}
	return ""
}

func parseQ(f []string) (*qop, bool) {
	if len(f) != 10 {
		return nil, false
	}
	q := &qop{kind: f[1], at: f[5]}
	var err error
	geti := func(s string) int64 {
		v, e := strconv.ParseInt(s, 10, 64)
		if e != nil {
			err = e
		}
		return v
	}
	q.rng, q.sqstep, q.off = geti(f[2]), geti(f[3]), geti(f[4])
	q.ioff, q.start, q.end, q.step = geti(f[6]), geti(f[7]), geti(f[8]), geti(f[9])
	if err != nil {
		return nil, false
	}
	switch q.at {
	case "-", "start", "end":
	default:
		if _, e := strconv.ParseInt(q.at, 10, 64); e != nil {
			return nil, false
		}
	}
	switch q.kind {
	case "sel", "ts":
	case "cnt", "sum", "last":
		if q.rng <= 0 {
			return nil, false
		}
	case "sqts":
		if q.rng <= 0 || q.sqstep <= 0 || q.step != 0 {
			return nil, false
		}
	case "sqcnt", "sqmin", "sqmax", "sqlast":
		if q.rng <= 0 || q.sqstep <= 0 {
			return nil, false
		}
	default:
		return nil, false
	}
	if q.step < 0 || (q.step > 0 && q.end < q.start) {
		return nil, false
	}
	return q, true
}

func ms(v float64) string { return strconv.FormatInt(int64(math.Round(v*1000)), 10) }

func (e *env) query(q *qop, id string, lb int64) string {
	opts := promql.NewPrometheusQueryOpts(false, time.Duration(lb)*time.Millisecond)
	var qry promql.Query
	var err error
	ctx := context.Background()
	if q.step == 0 {
		qry, err = e.eng.NewInstantQuery(ctx, e.st, opts, q.expr(id), time.UnixMilli(q.start))
	} else {
		qry, err = e.eng.NewRangeQuery(ctx, e.st, opts, q.expr(id), time.UnixMilli(q.start), time.UnixMilli(q.end), time.Duration(q.step)*time.Millisecond)
	}
	if err != nil {
		return "err"
	}
	defer qry.Close()
	res := qry.Exec(ctx)
	if res.Err != nil {
		return "err"
	}
	type pt struct {
		t int64
		v string
	}
	var pts []pt
	fval := func(f float64) string {
		switch q.kind {
		case "sel", "last":
			return fmt.Sprintf("f%016x", math.Float64bits(f))
		case "sum":
			return fmt.Sprintf("%016x", math.Float64bits(f))
		case "cnt", "sqcnt":
			return strconv.FormatInt(int64(f), 10)
		case "sqlast", "sqmin", "sqmax", "ts", "sqts":
			return ms(f)
		}
		return "?"
	}
	hval := func(fh *histogram.FloatHistogram) string {
		return fmt.Sprintf("h%016x", math.Float64bits(fh.Sum))
	}
	switch v := res.Value.(type) {
	case promql.Vector:
		if len(v) > 1 {
			return "multi"
		}
		for _, s := range v {
			if s.H != nil {
				pts = append(pts, pt{s.T, hval(s.H)})
			} else {
				pts = append(pts, pt{s.T, fval(s.F)})
			}
		}
	case promql.Matrix:
		if len(v) > 1 {
			return "multi"
		}
		for _, s := range v {
			for _, p := range s.Floats {
				pts = append(pts, pt{p.T, fval(p.F)})
			}
			for _, p := range s.Histograms {
				pts = append(pts, pt{p.T, hval(p.H)})
			}
		}
		sort.SliceStable(pts, func(i, j int) bool { return pts[i].t < pts[j].t })
	default:
		return "err"
	}
	if len(pts) == 0 {
		return "r -"
	}
	var sb strings.Builder
	sb.WriteString("r")
	for _, p := range pts {
		fmt.Fprintf(&sb, " %d:%s", p.t, p.v)
	}
	return sb.String()
}

func (e *env) runCase(c *h.Ctx, ops []string) {
	e.serial++
	id := strconv.Itoa(e.serial)
	lbl := labels.FromStrings("__name__", "m", "c", id)
	lb := int64(300000)
	hasHist := false
	for _, op := range ops {
		f := strings.Fields(op)
		if len(f) == 0 {
			c.Op(op, "bad-op")
			continue
		}
		switch {
		case f[0] == "lb" && len(f) == 2:
			v, err := strconv.ParseInt(f[1], 10, 64)
			if err != nil || v <= 0 {
				c.Op(op, "bad-op")
				continue
			}
			lb = v
			c.Op(op, "ok")
		case f[0] == "s" && len(f) == 4 && (f[2] == "f" || f[2] == "h"):
			t, e1 := strconv.ParseInt(f[1], 10, 64)
			bits, e2 := strconv.ParseUint(f[3], 16, 64)
			if e1 != nil || e2 != nil {
				c.Op(op, "bad-op")
				continue
			}
			out := "ok"
			app := e.st.Appender(context.Background())
			var err error
			if f[2] == "f" {
				_, err = app.Append(0, lbl, t, math.Float64frombits(bits))
			} else {
				_, err = app.AppendHistogram(0, lbl, t, nil, &histogram.FloatHistogram{Sum: math.Float64frombits(bits)})
			}
			if err != nil {
				_ = app.Rollback()
				out = "err"
			} else if err := app.Commit(); err != nil {
				out = "err"
			} else if f[2] == "h" {
				hasHist = true
			}
			c.Op(op, out)
		case f[0] == "q":
			q, ok := parseQ(f)
			if !ok {
				c.Op(op, "bad-op")
				continue
			}
			var out string
			if q.kind == "sum" && hasHist {
				out = "skip"
			} else if p, _ := h.Try(func() { out = e.query(q, id, lb) }); p {
				out = "panic"
			}
			c.Count("kind:" + q.kind)
			if q.step == 0 {
				c.Count("mode:instant")
			} else {
				c.Count("mode:range")
			}
			c.Count("out:" + strings.Fields(out)[0])
			if out == "r -" {
				c.Count("out:empty")
			}
			c.Op(op, out)
		default:
			c.Op(op, "bad-op")
		}
	}
}

// ---------------------------------------------------------------- generator

type smp struct {
	t     int64
	hist  bool
	stale bool
}

func genCase(c *h.Ctx, r *h.Rng) []string {
	var ops []string
	lb := h.PickI64(r, []int64{1, 2, 5, 50, 1000, 5000, 30000, 300000, 300000})
	if r.Chance(30) {
		lb = r.Range(1, 20000)
	}
	ops = append(ops, fmt.Sprintf("lb %d", lb))
	base := int64(0)
	if r.Chance(60) {
		base = r.Range(1_000_000, 3_000_000)
	} else {
		base = r.Range(-50_000, 50_000)
	}
	spacing := h.PickI64(r, []int64{1, 2, 3, 10, 100, 1000, 5000, 15000, lb, lb, lb / 2, lb + 1, lb - 1})
	if spacing <= 0 {
		spacing = 1
	}
	n := int(r.Range(0, 14))
	if r.Chance(5) {
		n = 0
	}
	histMode := 0 // 0 floats only; 1 mixed; 2 histograms only
	if r.Chance(20) {
		histMode = 1 + r.Intn(2)
	}
	c.Count(fmt.Sprintf("series:hist%d", histMode))
	var ss []smp
	t := base
	for i := 0; i < n; i++ {
		if i > 0 {
			switch x := r.Intn(100); {
			case x < 45:
				t += spacing
			case x < 55:
				t++
			case x < 65:
				t += lb // exactly one lookback apart
			case x < 72:
				t += lb + 1
			case x < 79:
				t += lb - 1
			case x < 87:
				t += lb*2 + r.Range(0, spacing) // gap larger than lookback
			default:
				t += r.Range(1, 3*spacing)
			}
			if t <= ss[i-1].t {
				t = ss[i-1].t + 1
			}
		}
		s := smp{t: t}
		s.stale = r.Chance(18)
		switch histMode {
		case 1:
			s.hist = r.Chance(40)
		case 2:
			s.hist = true
		}
		ss = append(ss, s)
		bits := math.Float64bits(float64(uint64(1) << uint(i)))
		if s.stale {
			bits = staleBits
			c.Count("series:stale")
		}
		k := "f"
		if s.hist {
			k = "h"
		}
		ops = append(ops, fmt.Sprintf("s %d %s %016x", s.t, k, bits))
	}
	c.Count(fmt.Sprintf("len:%d", len(ss)))
	nq := int(r.Range(4, 10))
	for k := 0; k < nq; k++ {
		ops = append(ops, genQuery(c, r, ss, lb, base, spacing, histMode))
	}
	return ops
}

// edge picks a time that coincides (±1 ms) with some window edge relative to a sample.
func edge(r *h.Rng, ss []smp, base int64, widths []int64) int64 {
	if len(ss) == 0 || r.Chance(10) {
		return base + r.Range(-5000, 60000)
	}
	s := ss[r.Intn(len(ss))]
	w := h.PickI64(r, widths)
	t := s.t
	switch r.Intn(4) {
	case 0:
		// sample on the closed (right) edge
	case 1:
		t += w // sample on the open (left) edge
	case 2:
		t += r.Range(0, w+2)
	case 3:
		t += w / 2
	}
	return t + h.PickI64(r, []int64{0, 0, 0, 1, -1})
}

func genQuery(c *h.Ctx, r *h.Rng, ss []smp, lb, base, spacing int64, histMode int) string {
	kinds := []string{"sel", "sel", "ts", "ts", "cnt", "cnt", "sum", "last", "sqts", "sqcnt", "sqmin", "sqmax", "sqlast"}
	kind := h.Pick(r, kinds)
	if kind == "sum" && histMode != 0 {
		kind = "cnt"
	}
	rng := h.PickI64(r, []int64{1, 2, spacing, spacing, 2 * spacing, 3*spacing + 1, lb, lb + 1, 5 * spacing, 10 * spacing})
	if r.Chance(20) {
		rng = r.Range(1, 12*spacing)
	}
	sqstep := int64(0)
	ioff := int64(0)
	isSq := strings.HasPrefix(kind, "sq")
	if isSq {
		sqstep = h.PickI64(r, []int64{1, 2, 3, 7, spacing, spacing, spacing / 2, spacing + 1, 1000, rng, rng / 2, rng / 3, rng + 1})
		if sqstep <= 0 {
			sqstep = 1
		}
		// bound the number of subquery steps per parent step
		for rng/sqstep > 40 {
			sqstep *= 3
		}
		if r.Chance(15) {
			ioff = h.PickI64(r, []int64{1, -1, spacing, -spacing, lb, 7})
		}
	}
	off := int64(0)
	if r.Chance(30) {
		off = h.PickI64(r, []int64{1, spacing, lb, lb - 1, 2 * spacing, 12345, r.Range(1, 50000)})
		if r.Chance(40) {
			off = -off
		}
		if off == 0 {
			off = 1
		}
	}
	widths := []int64{lb, lb, rng}
	if kind == "sel" || kind == "ts" {
		widths = []int64{lb}
	}
	if isSq {
		widths = []int64{lb, rng, sqstep}
	}
	start := edge(r, ss, base, widths) + off
	var end, step int64
	if kind != "sqts" && r.Chance(50) {
		step = h.PickI64(r, []int64{1, spacing, spacing, rng, rng - 1, rng + 1, lb, 2 * spacing, spacing / 2, 1000, 7})
		if step <= 0 {
			step = 1
		}
		nsteps := r.Range(1, 12)
		if len(ss) > 0 && r.Chance(40) {
			// cover the whole series
			start = ss[0].t - r.Range(0, step) + off
			nsteps = (ss[len(ss)-1].t+lb-ss[0].t)/step + 2
			for nsteps > 60 {
				step *= 2
				nsteps = (ss[len(ss)-1].t+lb-ss[0].t)/step + 2
			}
		}
		end = start + nsteps*step - h.PickI64(r, []int64{0, 0, 1, step / 2})
		if end < start {
			end = start
		}
		if isSq {
			for (end-start+rng)/sqstep > 400 {
				sqstep *= 2
			}
		}
	} else {
		end = start
	}
	at := "-"
	if r.Chance(22) {
		switch r.Intn(4) {
		case 0:
			at = "start"
		case 1:
			at = "end"
		default:
			v := edge(r, ss, base, widths)
			if v < 0 && v > -1000 {
				// "@ -0.xyz" would need a sign in front of a zero integer part; keep it simple
				v = -1000
			}
			at = strconv.FormatInt(v, 10)
		}
	}
	if at != "-" {
		c.Count("q:at")
	}
	if off < 0 {
		c.Count("q:negoffset")
	} else if off > 0 {
		c.Count("q:offset")
	}
	if start < 0 {
		c.Count("q:negstart")
	}
	return fmt.Sprintf("q %s %d %d %d %s %d %d %d %d", kind, rng, sqstep, off, at, ioff, start, end, step)
}

func main() {
	c := h.Init()
	defer c.Finish()
	e := newEnv()
	defer e.st.Close()
	if c.Replay != "" {
		for _, cs := range c.ReplayCases() {
			c.Case(strings.TrimPrefix(cs[0], "case "))
			e.runCase(c, cs[1:])
		}
		return
	}
	r := c.Rng
	for i := 0; i < c.N; i++ {
		c.Case(fmt.Sprintf("r%d", i))
		ops := genCase(c, r)
		c.NonTrivial(strings.Join(ops, ";"))
		e.runCase(c, ops)
	}
}
