// Suite plan (C08): the real compaction planner (LeveledCompactor.plan via the verif hook, and
// LeveledCompactor.Plan(dir) end-to-end over meta.json files) and tsdb.CompactBlockMetas on generated
// block-meta sets, plus the metadata-level plan/compact loop.
//
// ops:  cfg <overlapping 0|1> <ranges csv>
//
//	blk <mint> <maxt> <level> <failed> <deletable> <numSeries> <numTombstones> <hints> <sources csv|->
//	     hints: letters o (from-out-of-order) s (from-stale-series) e (from-selected-series)
//	            x (an unknown hint), in list order, duplicates allowed, "-" = none
//	plan | plandir | merge <idx csv|-> | converge
//
// out:  cfg/blk: ok ; plan/plandir: "ok <idx csv|->" | panic | err
//
//	merge: "ok <mint> <maxt> <level> <hints> f=<failed> d=<deletable> ns=<n> nt=<n> p=<idx:mint:maxt,..> s=<csv>" | panic
//	converge: "ok steps=<n> done=<0|1> layout=<mint:maxt:level:ns:nt:hints;...|->" | panic
//
// ULIDs never appear: block i has a ULID whose timestamp is i+1; source k the ULID with timestamp 1000000+k.
package main

import (
	"context"
	"encoding/json"
	"fmt"
	"os"
	"path/filepath"
	"strconv"
	"strings"

	"github.com/oklog/ulid/v2"
	"github.com/prometheus/prometheus/tsdb"

	"verif/harness/h"
)

const (
	hintO = "from-out-of-order"
	hintS = "from-stale-series"
	hintE = "from-selected-series"
	hintX = "verif-unknown-hint"
)

func blockULID(i int) ulid.ULID  { var u ulid.ULID; _ = u.SetTime(uint64(i + 1)); return u }
func sourceULID(k int) ulid.ULID { var u ulid.ULID; _ = u.SetTime(uint64(1000000 + k)); return u }

func hintsOf(s string) []string {
	if s == "-" {
		return nil
	}
	var out []string
	for _, ch := range s {
		switch ch {
		case 'o':
			out = append(out, hintO)
		case 's':
			out = append(out, hintS)
		case 'e':
			out = append(out, hintE)
		default:
			out = append(out, hintX)
		}
	}
	return out
}

func hintLetters(hs []string) string {
	if len(hs) == 0 {
		return "-"
	}
	var b strings.Builder
	for _, x := range hs {
		switch x {
		case hintO:
			b.WriteByte('o')
		case hintS:
			b.WriteByte('s')
		case hintE:
			b.WriteByte('e')
		default:
			b.WriteByte('x')
		}
	}
	return b.String()
}

// canonHints prints which of the three known hints a meta carries (as the code's FromXxx predicates see
// them), in the fixed order o,e,s; used for the layout of the converge op where untouched input blocks
// keep their raw hint lists.
func canonHints(m *tsdb.BlockMeta) string {
	s := ""
	if m.Compaction.FromOutOfOrder() {
		s += "o"
	}
	if m.Compaction.FromSelectedSeries() {
		s += "e"
	}
	if m.Compaction.FromStaleSeries() {
		s += "s"
	}
	if s == "" {
		return "-"
	}
	return s
}

func csvInts(xs []int) string {
	if len(xs) == 0 {
		return "-"
	}
	p := make([]string, len(xs))
	for i, x := range xs {
		p[i] = strconv.Itoa(x)
	}
	return strings.Join(p, ",")
}

func parseCSV64(s string) ([]int64, bool) {
	if s == "-" {
		return nil, true
	}
	var out []int64
	for _, p := range strings.Split(s, ",") {
		v, err := strconv.ParseInt(p, 10, 64)
		if err != nil {
			return nil, false
		}
		out = append(out, v)
	}
	return out, true
}

type state struct {
	haveCfg bool
	ovl     bool
	ranges  []int64
	metas   []*tsdb.BlockMeta
}

func cloneMeta(m *tsdb.BlockMeta) *tsdb.BlockMeta {
	c := *m
	c.Compaction.Hints = append([]string(nil), m.Compaction.Hints...)
	c.Compaction.Sources = append([]ulid.ULID(nil), m.Compaction.Sources...)
	c.Compaction.Parents = append([]tsdb.BlockDesc(nil), m.Compaction.Parents...)
	return &c
}

func (s *state) planOut(metas []*tsdb.BlockMeta) (string, []int) {
	if len(s.ranges) == 0 {
		return "err", nil
	}
	var idx []int
	var err error
	cp := make([]*tsdb.BlockMeta, len(metas))
	for i, m := range metas {
		cp[i] = cloneMeta(m)
	}
	if p, _ := h.Try(func() { idx, err = tsdb.VerifPlanMetas(append([]int64(nil), s.ranges...), s.ovl, cp) }); p {
		return "panic", nil
	}
	if err != nil {
		return "err", nil
	}
	return "ok " + csvInts(idx), idx
}

func (s *state) planDirOut() string {
	if len(s.ranges) == 0 {
		return "err"
	}
	dir, err := os.MkdirTemp("", "verif-c08-")
	if err != nil {
		panic(err)
	}
	defer os.RemoveAll(dir)
	byName := map[string]int{}
	for i, m := range s.metas {
		cp := cloneMeta(m)
		cp.Version = 1
		bd := filepath.Join(dir, cp.ULID.String())
		if err := os.Mkdir(bd, 0o755); err != nil {
			panic(err)
		}
		b, err := json.MarshalIndent(cp, "", "\t")
		if err != nil {
			panic(err)
		}
		if err := os.WriteFile(filepath.Join(bd, "meta.json"), b, 0o644); err != nil {
			panic(err)
		}
		byName[cp.ULID.String()] = i
	}
	c, err := tsdb.NewLeveledCompactorWithOptions(context.Background(), nil, nil, append([]int64(nil), s.ranges...), nil,
		tsdb.LeveledCompactorOptions{EnableOverlappingCompaction: s.ovl})
	if err != nil {
		return "err"
	}
	var dirs []string
	if p, _ := h.Try(func() { dirs, err = c.Plan(dir) }); p {
		return "panic"
	}
	if err != nil {
		return "err"
	}
	var idx []int
	for _, d := range dirs {
		i, ok := byName[filepath.Base(d)]
		if !ok {
			return "err"
		}
		idx = append(idx, i)
	}
	return "ok " + csvInts(idx)
}

func sourceInts(m *tsdb.BlockMeta) string {
	var xs []int
	for _, u := range m.Compaction.Sources {
		xs = append(xs, int(u.Time())-1000000)
	}
	return csvInts(xs)
}

func (s *state) mergeOut(idx []int) string {
	var blocks []*tsdb.BlockMeta
	for _, i := range idx {
		blocks = append(blocks, cloneMeta(s.metas[i]))
	}
	var res *tsdb.BlockMeta
	if p, _ := h.Try(func() { res = tsdb.CompactBlockMetas(blockULID(len(s.metas)), blocks...) }); p {
		return "panic"
	}
	var ps []string
	for _, p := range res.Compaction.Parents {
		ps = append(ps, fmt.Sprintf("%d:%d:%d", int(p.ULID.Time())-1, p.MinTime, p.MaxTime))
	}
	pstr := "-"
	if len(ps) > 0 {
		pstr = strings.Join(ps, ",")
	}
	b2i := func(b bool) int {
		if b {
			return 1
		}
		return 0
	}
	return fmt.Sprintf("ok %d %d %d %s f=%d d=%d ns=%d nt=%d p=%s s=%s", res.MinTime, res.MaxTime, res.Compaction.Level,
		hintLetters(res.Compaction.Hints), b2i(res.Compaction.Failed), b2i(res.Compaction.Deletable),
		res.Stats.NumSeries, res.Stats.NumTombstones, pstr, sourceInts(res))
}

func measure(metas []*tsdb.BlockMeta) int {
	n := len(metas)
	for _, m := range metas {
		if m.Stats.NumTombstones > 0 {
			n++
		}
	}
	return n
}

// convergeOut iterates the real planner and CompactBlockMetas at metadata level: the planned blocks are
// replaced by the merged meta (appended: a new ULID sorts last in the data dir), the written block has no
// tombstones and at most the sum of its parents' series; if every planned block is entirely deleted
// (numTombstones > 0 and >= numSeries) nothing is written and the parents disappear.
func (s *state) convergeOut() string {
	cur := make([]*tsdb.BlockMeta, len(s.metas))
	for i, m := range s.metas {
		cur[i] = cloneMeta(m)
	}
	fuel := measure(cur) + 2
	steps, done := 0, false
	next := len(s.metas)
	for ; fuel > 0; fuel-- {
		out, idx := s.planOut(cur)
		if !strings.HasPrefix(out, "ok") {
			return "panic"
		}
		if len(idx) == 0 {
			done = true
			break
		}
		planned := map[int]bool{}
		var blocks []*tsdb.BlockMeta
		allDeleted := true
		var ns uint64
		for _, i := range idx {
			planned[i] = true
			blocks = append(blocks, cur[i])
			st := cur[i].Stats
			if !(st.NumTombstones > 0 && st.NumTombstones >= st.NumSeries) {
				allDeleted = false
			}
			ns += st.NumSeries
		}
		var rest []*tsdb.BlockMeta
		for i, m := range cur {
			if !planned[i] {
				rest = append(rest, m)
			}
		}
		if !allDeleted {
			var res *tsdb.BlockMeta
			if p, _ := h.Try(func() { res = tsdb.CompactBlockMetas(blockULID(next), blocks...) }); p {
				return "panic"
			}
			next++
			res.Stats.NumSeries = ns
			res.Stats.NumTombstones = 0
			rest = append(rest, res)
		}
		cur = rest
		steps++
	}
	var parts []string
	for _, m := range cur {
		parts = append(parts, fmt.Sprintf("%d:%d:%d:%d:%d:%s", m.MinTime, m.MaxTime, m.Compaction.Level, m.Stats.NumSeries,
			m.Stats.NumTombstones, canonHints(m)))
	}
	lay := "-"
	if len(parts) > 0 {
		lay = strings.Join(parts, ";")
	}
	d := 0
	if done {
		d = 1
	}
	return fmt.Sprintf("ok steps=%d done=%d layout=%s", steps, d, lay)
}

// apply executes one op line on the case state and returns the canonical output line.
func (s *state) apply(c *h.Ctx, op string) string {
	{
		f := strings.Fields(op)
		out := "bad-op"
		switch {
		case len(f) == 3 && f[0] == "cfg":
			if rs, ok := parseCSV64(f[2]); ok && (f[1] == "0" || f[1] == "1") {
				s.haveCfg, s.ovl, s.ranges = true, f[1] == "1", rs
				out = "ok"
			}
		case len(f) == 10 && f[0] == "blk":
			mint, e1 := strconv.ParseInt(f[1], 10, 64)
			maxt, e2 := strconv.ParseInt(f[2], 10, 64)
			level, e3 := strconv.ParseInt(f[3], 10, 64)
			ns, e4 := strconv.ParseUint(f[6], 10, 64)
			nt, e5 := strconv.ParseUint(f[7], 10, 64)
			srcs, ok := parseCSV64(f[9])
			if e1 == nil && e2 == nil && e3 == nil && e4 == nil && e5 == nil && ok {
				m := &tsdb.BlockMeta{ULID: blockULID(len(s.metas)), MinTime: mint, MaxTime: maxt}
				m.Stats.NumSeries, m.Stats.NumTombstones = ns, nt
				m.Compaction.Level = int(level)
				m.Compaction.Failed = f[4] == "1"
				m.Compaction.Deletable = f[5] == "1"
				m.Compaction.Hints = hintsOf(f[8])
				for _, k := range srcs {
					m.Compaction.Sources = append(m.Compaction.Sources, sourceULID(int(k)))
				}
				s.metas = append(s.metas, m)
				out = "ok"
			}
		case len(f) == 1 && f[0] == "plan" && s.haveCfg:
			var idx []int
			out, idx = s.planOut(s.metas)
			count(c, "plan:"+strings.Fields(out)[0])
			if out != "panic" && out != "err" {
				count(c, "plan:shape:"+s.shapeOf(idx))
			}
		case len(f) == 1 && f[0] == "plandir" && s.haveCfg:
			out = s.planDirOut()
			count(c, "plandir")
		case len(f) == 2 && f[0] == "merge":
			if xs, ok := parseCSV64(f[1]); ok {
				var idx []int
				valid := true
				for _, x := range xs {
					if x < 0 || int(x) >= len(s.metas) {
						valid = false
					}
					idx = append(idx, int(x))
				}
				if valid {
					out = s.mergeOut(idx)
					count(c, "merge")
				}
			}
		case len(f) == 1 && f[0] == "converge" && s.haveCfg:
			out = s.convergeOut()
			count(c, "converge")
			if i := strings.Index(out, "steps="); i >= 0 {
				count(c, "converge:"+strings.Fields(out[i:])[0])
			}
		}
		return out
	}
}

func count(c *h.Ctx, k string) {
	if c != nil {
		c.Count(k)
	}
}

// shapeOf classifies a plan for the distribution statistics only.
func (s *state) shapeOf(idx []int) string {
	switch {
	case len(idx) == 0:
		return "empty"
	case len(idx) == 1:
		return "tombstone"
	}
	for _, i := range idx {
		for _, j := range idx {
			if i != j && s.metas[i].MinTime < s.metas[j].MaxTime && s.metas[j].MinTime < s.metas[i].MaxTime {
				return "overlap"
			}
		}
	}
	return "range"
}

func runCase(c *h.Ctx, ops []string) {
	s := &state{}
	for _, op := range ops {
		c.Op(op, s.apply(c, op))
	}
}

// ---------------------------------------------------------------- generation

type blk struct {
	mint, maxt, level int64
	failed, deletable bool
	ns, nt            uint64
	hints             string
	sources           []int
}

func (b blk) line() string {
	b2i := func(x bool) int {
		if x {
			return 1
		}
		return 0
	}
	return fmt.Sprintf("blk %d %d %d %d %d %d %d %s %s", b.mint, b.maxt, b.level, b2i(b.failed), b2i(b.deletable), b.ns, b.nt, b.hints, csvInts(b.sources))
}

func csv64(xs []int64) string {
	if len(xs) == 0 {
		return "-"
	}
	p := make([]string, len(xs))
	for i, x := range xs {
		p[i] = strconv.FormatInt(x, 10)
	}
	return strings.Join(p, ",")
}

func genRanges(r *h.Rng) []int64 {
	base := h.PickI64(r, []int64{1, 2, 3, 10, 20, 7200000, 1 << 40})
	var rs []int64
	switch r.Intn(10) {
	case 0: // single range: selectDirs never selects
		rs = []int64{base}
	case 1, 2, 3: // ExponentialBlockRanges(base, 3..4, 3)
		n := 3 + r.Intn(2)
		v := base
		for i := 0; i < n; i++ {
			rs = append(rs, v)
			v *= 3
		}
	case 4, 5: // powers of two / five
		m := h.PickI64(r, []int64{2, 5})
		n := 2 + r.Intn(3)
		v := base
		for i := 0; i < n; i++ {
			rs = append(rs, v)
			v *= m
		}
	case 6, 7: // not multiples of each other
		v := base
		n := 2 + r.Intn(3)
		for i := 0; i < n; i++ {
			rs = append(rs, v)
			v = v*2 + base*r.Range(0, 3)
		}
	case 8: // two ranges
		rs = []int64{base, base * r.Range(2, 6)}
	default: // unsorted / duplicated / (rarely) zero or negative entries
		n := 1 + r.Intn(4)
		for i := 0; i < n; i++ {
			rs = append(rs, base*r.Range(1, 9))
		}
		if r.Chance(40) {
			rs[r.Intn(len(rs))] = h.PickI64(r, []int64{0, 0, -base, -3 * base})
		}
	}
	return rs
}

var nsPool = []uint64{0, 1, 2, 18, 19, 20, 21, 39, 40, 99, 100, 1000, 1 << 20, 1<<40 - 1, 1 << 40, 1<<52 - 1, 1<<53 - 2, 1<<53 - 1}

func genStats(r *h.Rng) (ns, nt uint64) {
	ns = nsPool[r.Intn(len(nsPool))]
	if r.Chance(25) {
		ns = uint64(r.Range(0, 200))
	}
	switch r.Intn(10) {
	case 0, 1, 2, 3, 4:
		nt = 0
	case 5: // around the 5% threshold: 20*nt vs ns+1
		q := (ns + 1) / 20
		nt = uint64(int64(q) + r.Range(-1, 2))
		if int64(nt) < 0 {
			nt = 0
		}
	case 6: // around "entirely deleted": nt vs ns
		d := r.Range(-1, 1)
		if d < 0 && ns == 0 {
			d = 0
		}
		nt = uint64(int64(ns) + d)
	case 7:
		nt = 1
	case 8:
		nt = uint64(r.Range(0, 30))
	default:
		nt = nsPool[r.Intn(len(nsPool))]
	}
	if nt > 1<<53 {
		nt = 1 << 53
	}
	return
}

func genHints(r *h.Rng, mode int) string {
	var s []byte
	cls := 0 // 0 regular 1 stale 2 selected 3 both
	switch mode {
	case 0:
		cls = 0
	case 1:
		cls = 1
	case 2:
		cls = 2
	default:
		switch x := r.Intn(10); {
		case x < 4:
			cls = 0
		case x < 6:
			cls = 1
		case x < 8:
			cls = 2
		case x < 9:
			cls = 3
		default:
			cls = r.Intn(4)
		}
	}
	if cls == 1 || cls == 3 {
		s = append(s, 's')
	}
	if cls == 2 || cls == 3 {
		s = append(s, 'e')
	}
	if r.Chance(30) {
		s = append(s, 'o')
	}
	if r.Chance(8) {
		s = append(s, 'x')
	}
	if len(s) > 0 && r.Chance(8) {
		s = append(s, s[r.Intn(len(s))]) // duplicate entry
	}
	for i := len(s) - 1; i > 0; i-- { // shuffle
		j := r.Intn(i + 1)
		s[i], s[j] = s[j], s[i]
	}
	if len(s) == 0 {
		return "-"
	}
	return string(s)
}

func genSources(r *h.Rng) []int {
	n := r.Intn(4)
	var xs []int
	for i := 0; i < n; i++ {
		xs = append(xs, r.Intn(12))
	}
	return xs
}

// genBlocks produces the time layout; unit is the smallest configured range (or 1).
func genBlocks(r *h.Rng, ranges []int64) []blk {
	unit := int64(1)
	if len(ranges) > 0 && ranges[0] > 0 {
		unit = ranges[0]
	}
	n := r.Intn(13) // 0..12 blocks
	if r.Chance(60) {
		n = 2 + r.Intn(8)
	}
	var out []blk
	origin := r.Range(-14, 6) // in units; negative time is common
	style := r.Intn(10)
	slot := origin
	for i := 0; i < n; i++ {
		var b blk
		switch {
		case style < 5: // aligned chain: level-k blocks of size ranges[k-1] where they fit, gaps now and then
			lvl := 0
			if len(ranges) > 1 && r.Chance(30) {
				lvl = 1 + r.Intn(len(ranges)-1)
			}
			size := unit
			if lvl > 0 && ranges[lvl] > 0 && ranges[lvl]%unit == 0 {
				size = ranges[lvl]
				// align the start to the bigger range
				k := size / unit
				if slot%k != 0 {
					slot += k - ((slot%k)+k)%k
				}
			}
			b.mint = slot * unit
			b.maxt = b.mint + size
			if r.Chance(10) { // short block (e.g. a head block cut early): maxt < end of its range
				b.maxt = b.mint + 1 + r.Range(0, size-1)
			}
			b.level = int64(lvl + 1)
			slot += size / unit
			if r.Chance(15) {
				slot += r.Range(1, 4)
			}
		case style < 7: // misaligned, non-overlapping
			w := r.Range(1, 2*unit)
			b.mint = slot*unit + r.Range(0, unit)
			b.maxt = b.mint + w
			slot = (b.maxt + unit - 1) / unit
			if b.maxt < 0 {
				slot = b.maxt / unit
			}
			b.level = r.Range(1, 3)
		default: // arbitrary, overlapping likely
			b.mint = (origin+r.Range(0, 14))*unit + h.PickI64(r, []int64{0, 0, 0, 1, -1, unit / 2})
			b.maxt = b.mint + h.PickI64(r, []int64{1, unit, unit, 2 * unit, 3 * unit, unit + 1, r.Range(1, 9*unit)})
			b.level = r.Range(1, 4)
		}
		if r.Chance(3) {
			b.level = r.Range(-2, 0)
		}
		out = append(out, b)
	}
	if style >= 5 || r.Chance(30) { // listing order need not be time order
		for i := len(out) - 1; i > 0; i-- {
			j := r.Intn(i + 1)
			out[i], out[j] = out[j], out[i]
		}
	}
	if len(out) >= 2 && r.Chance(10) { // equal MinTime (stable-sort ties)
		out[r.Intn(len(out))].mint = out[r.Intn(len(out))].mint
		for i := range out {
			if out[i].maxt <= out[i].mint {
				out[i].maxt = out[i].mint + 1
			}
		}
	}
	return out
}

func genCase(c *h.Ctx, r *h.Rng, id string, e2e bool) {
	ranges := genRanges(r)
	ovl := r.Chance(65)
	blocks := genBlocks(r, ranges)
	mode := 3
	if r.Chance(35) {
		mode = r.Intn(3)
	}
	failP := h.Pick(r, []int{0, 0, 10, 30})
	tomb := r.Chance(55)
	for i := range blocks {
		blocks[i].hints = genHints(r, mode)
		blocks[i].failed = r.Chance(failP)
		blocks[i].deletable = r.Chance(4)
		if tomb {
			blocks[i].ns, blocks[i].nt = genStats(r)
		} else {
			blocks[i].ns = uint64(r.Range(0, 1000))
		}
		blocks[i].sources = genSources(r)
	}
	ops := []string{fmt.Sprintf("cfg %d %s", map[bool]int{false: 0, true: 1}[ovl], csv64(ranges))}
	for _, b := range blocks {
		ops = append(ops, b.line())
	}
	// replay the set-up lines on a private state to learn the real plan
	st := &state{}
	for _, op := range ops {
		st.apply(nil, op)
	}
	ops = append(ops, "plan")
	if e2e {
		ops = append(ops, "plandir")
	}
	// merge the real plan (if any) and a random multiset of blocks (sometimes empty: panics)
	if _, idx := st.planOut(st.metas); len(idx) > 0 {
		ops = append(ops, "merge "+csvInts(idx))
	}
	if len(blocks) > 0 {
		var idx []int
		k := r.Intn(5)
		for i := 0; i < k; i++ {
			idx = append(idx, r.Intn(len(blocks)))
		}
		ops = append(ops, "merge "+csvInts(idx))
	} else if r.Chance(50) {
		ops = append(ops, "merge -")
	}
	ops = append(ops, "converge")
	c.Case(id)
	c.NonTrivial(strings.Join(ops, ";"))
	c.Count(fmt.Sprintf("blocks:%d", len(blocks)))
	runCase(c, ops)
}

// exhaustive enumerates every subset of a universe of aligned blocks: `slots` level-1 blocks of size 1,
// slots/2 level-2 blocks of size 2, slots/4 level-3 blocks of size 4 (ranges 1,2,4), shifted by `origin`,
// with overlapping compaction on and off. Subsets with more than 12 blocks are skipped (sort stability).
func exhaustive(c *h.Ctx, slots int, origins []int64) {
	type ub struct{ mint, maxt, level int64 }
	var uni []ub
	for lvl, size := int64(1), int64(1); size <= 4; lvl, size = lvl+1, size*2 {
		for k := int64(0); k+size <= int64(slots); k += size {
			uni = append(uni, ub{k, k + size, lvl})
		}
	}
	id := 0
	for _, origin := range origins {
		for ovl := 0; ovl < 2; ovl++ {
			for mask := 0; mask < 1<<len(uni); mask++ {
				var ops []string
				ops = append(ops, fmt.Sprintf("cfg %d 1,2,4", ovl))
				n := 0
				for i, u := range uni {
					if mask&(1<<i) != 0 {
						n++
						ops = append(ops, blk{mint: u.mint + origin, maxt: u.maxt + origin, level: u.level, ns: 10, hints: "-"}.line())
					}
				}
				if n > 12 {
					continue
				}
				ops = append(ops, "plan", "converge")
				id++
				c.Case(fmt.Sprintf("ex%d", id))
				c.NonTrivial(strings.Join(ops, ";"))
				c.Count("stream:exhaustive")
				runCase(c, ops)
			}
		}
	}
}

func main() {
	c := h.Init()
	defer c.Finish()
	if c.Replay != "" {
		for _, cs := range c.ReplayCases() {
			c.Case(strings.TrimPrefix(cs[0], "case "))
			runCase(c, cs[1:])
		}
		return
	}
	if c.Tier == "thorough" {
		exhaustive(c, 8, []int64{0, -4, -3})
	} else {
		exhaustive(c, 4, []int64{0, -4, -3, -1})
	}
	r := c.Rng
	for i := 0; i < c.N; i++ {
		e2e := i%16 == 0
		genCase(c, r, fmt.Sprintf("r%d", i), e2e)
		c.Count("stream:random")
	}
}
