// Package walrec renders the DECODED records of a WAL directory (last checkpoint + every segment
// file) in the canonical text form shared by the `agent` and `ckpt` suites:
//
//	cp=<idx|-> <rec>;<rec>… | <segidx> <rec>;… | <segidx> - …
//	rec: S(ref=lid,…) F(ref@t=v,…) H(…) HC(…) G(…) GC(…) X(ref@t=v,…) T(ref:mint~maxt+…,…) M(ref=mid,…)
//
// lid = integer value of the series label "s"; v = the integer the harness stored in the float value /
// histogram Sum; mid = integer stored in the metadata Help string.
package walrec

import (
	"fmt"
	"io"
	"math"
	"sort"
	"strconv"
	"strings"

	"github.com/prometheus/common/promslog"

	"github.com/prometheus/prometheus/model/labels"
	"github.com/prometheus/prometheus/tsdb/record"
	"github.com/prometheus/prometheus/tsdb/tombstones"
	"github.com/prometheus/prometheus/tsdb/wlog"
)

type entry struct {
	ref uint64
	s   string
}

func join(tag string, es []entry, sorted bool) string {
	if sorted {
		sort.SliceStable(es, func(i, j int) bool { return es[i].ref < es[j].ref })
	}
	parts := make([]string, len(es))
	for i, e := range es {
		parts[i] = e.s
	}
	return tag + "(" + strings.Join(parts, ",") + ")"
}

// Lid extracts the label-set id.
func Lid(l labels.Labels) int {
	v := l.Get("s")
	n, err := strconv.Atoi(v)
	if err != nil || l.Len() != 2 {
		return 999
	}
	return n
}

// Decode renders every record of r. sortAll sorts the entries of series/sample records by ref
// (checkpoints written from Go maps); metadata records of a checkpoint are always sorted.
func Decode(r *wlog.Reader, sortAll, sortMeta bool) (string, error) {
	dec := record.NewDecoder(labels.NewSymbolTable(), promslog.NewNopLogger())
	var recs []string
	for r.Next() {
		rec := r.Record()
		switch t := dec.Type(rec); t {
		case record.Series:
			ss, err := dec.Series(rec, nil)
			if err != nil {
				return "", err
			}
			es := make([]entry, len(ss))
			for i, s := range ss {
				es[i] = entry{uint64(s.Ref), fmt.Sprintf("%d=%d", s.Ref, Lid(s.Labels))}
			}
			recs = append(recs, join("S", es, sortAll))
		case record.Samples, record.SamplesV2:
			ss, err := dec.Samples(rec, nil)
			if err != nil {
				return "", err
			}
			es := make([]entry, len(ss))
			for i, s := range ss {
				v := s.V
				if math.IsNaN(v) {
					v = 0 // stale marker
				}
				es[i] = entry{uint64(s.Ref), fmt.Sprintf("%d@%d=%d", s.Ref, s.T, int64(v))}
			}
			recs = append(recs, join("F", es, sortAll))
		case record.HistogramSamples, record.HistogramSamplesV2, record.CustomBucketsHistogramSamples:
			ss, err := dec.HistogramSamples(rec, nil)
			if err != nil {
				return "", err
			}
			es := make([]entry, len(ss))
			for i, s := range ss {
				es[i] = entry{uint64(s.Ref), fmt.Sprintf("%d@%d=%d", s.Ref, s.T, int64(s.H.Sum))}
			}
			tag := "H"
			if t == record.CustomBucketsHistogramSamples {
				tag = "HC"
			}
			recs = append(recs, join(tag, es, sortAll))
		case record.FloatHistogramSamples, record.FloatHistogramSamplesV2, record.CustomBucketsFloatHistogramSamples:
			ss, err := dec.FloatHistogramSamples(rec, nil)
			if err != nil {
				return "", err
			}
			es := make([]entry, len(ss))
			for i, s := range ss {
				es[i] = entry{uint64(s.Ref), fmt.Sprintf("%d@%d=%d", s.Ref, s.T, int64(s.FH.Sum))}
			}
			tag := "G"
			if t == record.CustomBucketsFloatHistogramSamples {
				tag = "GC"
			}
			recs = append(recs, join(tag, es, sortAll))
		case record.Exemplars:
			ss, err := dec.Exemplars(rec, nil)
			if err != nil {
				return "", err
			}
			es := make([]entry, len(ss))
			for i, s := range ss {
				es[i] = entry{uint64(s.Ref), fmt.Sprintf("%d@%d=%d", s.Ref, s.T, int64(s.V))}
			}
			recs = append(recs, join("X", es, sortAll))
		case record.Tombstones:
			var ss []tombstones.Stone
			ss, err := dec.Tombstones(rec, ss)
			if err != nil {
				return "", err
			}
			es := make([]entry, len(ss))
			for i, s := range ss {
				ivs := make([]string, len(s.Intervals))
				for j, iv := range s.Intervals {
					ivs[j] = fmt.Sprintf("%d~%d", iv.Mint, iv.Maxt)
				}
				es[i] = entry{uint64(s.Ref), fmt.Sprintf("%d:%s", s.Ref, strings.Join(ivs, "+"))}
			}
			recs = append(recs, join("T", es, true)) // eviction writes its stones in Go map order
		case record.Metadata:
			ss, err := dec.Metadata(rec, nil)
			if err != nil {
				return "", err
			}
			es := make([]entry, len(ss))
			for i, s := range ss {
				mid, _ := strconv.Atoi(s.Help)
				es[i] = entry{uint64(s.Ref), fmt.Sprintf("%d=%d", s.Ref, mid)}
			}
			recs = append(recs, join("M", es, sortAll || sortMeta))
		default:
			recs = append(recs, fmt.Sprintf("U%d()", t))
		}
	}
	if err := r.Err(); err != nil {
		return "", err
	}
	if len(recs) == 0 {
		return "-", nil
	}
	return strings.Join(recs, ";"), nil
}

func decodeCloser(rc io.ReadCloser, sortAll, sortMeta bool) (string, error) {
	defer rc.Close()
	return Decode(wlog.NewReader(rc), sortAll, sortMeta)
}

// Dump renders the last checkpoint and every segment file of walDir. sortCp: the checkpoint was
// written from Go maps (agent CheckpointFromInMemorySeries) — sort entries inside its records.
func Dump(walDir string, sortCp bool) string {
	var parts []string
	dir, idx, err := wlog.LastCheckpoint(walDir)
	switch {
	case err == record.ErrNotFound:
		parts = append(parts, "cp=- -")
	case err != nil:
		return "err:lastcheckpoint:" + clean(err)
	default:
		sr, err := wlog.NewSegmentsReader(dir)
		if err != nil {
			return "err:cpreader:" + clean(err)
		}
		s, err := decodeCloser(sr, sortCp, true)
		if err != nil {
			return "err:cpdecode:" + clean(err)
		}
		parts = append(parts, fmt.Sprintf("cp=%d %s", idx, s))
	}
	first, last, err := wlog.Segments(walDir)
	if err != nil {
		return "err:segments:" + clean(err)
	}
	if last >= 0 {
		for i := first; i <= last; i++ {
			seg, err := wlog.OpenReadSegment(wlog.SegmentName(walDir, i))
			if err != nil {
				return "err:openseg:" + clean(err)
			}
			s, err := decodeCloser(wlog.NewSegmentBufReader(seg), false, false)
			if err != nil {
				return "err:segdecode:" + clean(err)
			}
			parts = append(parts, fmt.Sprintf("%d %s", i, s))
		}
	}
	return strings.Join(parts, " | ")
}

func clean(err error) string {
	return strings.NewReplacer(" ", "_", "\t", "_", "\n", "_").Replace(err.Error())
}
