// Package h is the shared runtime of the correspondence suites: one PRNG, the ops/impl
// writers of the line protocol, hex helpers, panic capture and distribution statistics.
package h

import (
	"bufio"
	"encoding/hex"
	"encoding/json"
	"flag"
	"fmt"
	"os"
	"path/filepath"
	"sort"
	"strings"
)

// Rng is SplitMix64; every random choice of a suite derives from one seed.
type Rng struct{ s uint64 }

func NewRng(seed uint64) *Rng {
	// Scramble the seed first: with a plain affine start, seed+1 would replay seed's stream
	// shifted by one draw.
	z := seed + 0x632BE59BD9B4E019
	z = (z ^ (z >> 30)) * 0xBF58476D1CE4E5B9
	z = (z ^ (z >> 27)) * 0x94D049BB133111EB
	return &Rng{s: z ^ (z >> 31)}
}

func (r *Rng) U64() uint64 {
	r.s += 0x9E3779B97F4A7C15
	z := r.s
	z = (z ^ (z >> 30)) * 0xBF58476D1CE4E5B9
	z = (z ^ (z >> 27)) * 0x94D049BB133111EB
	return z ^ (z >> 31)
}

// Intn returns a value in [0,n).
func (r *Rng) Intn(n int) int {
	if n <= 0 {
		return 0
	}
	return int(r.U64() % uint64(n))
}

// Range returns a value in [lo,hi].
func (r *Rng) Range(lo, hi int64) int64 {
	if hi <= lo {
		return lo
	}
	return lo + int64(r.U64()%uint64(hi-lo+1))
}

func (r *Rng) Bool() bool         { return r.U64()&1 == 1 }
func (r *Rng) Chance(p int) bool  { return r.Intn(100) < p }
func (r *Rng) Float() float64     { return float64(r.U64()>>11) / (1 << 53) }
func (r *Rng) Fork() *Rng         { return NewRng(r.U64()) }
func PickI64(r *Rng, xs []int64) int64 { return xs[r.Intn(len(xs))] }
func Pick[T any](r *Rng, xs []T) T { return xs[r.Intn(len(xs))] }

// Ctx is one suite run.
type Ctx struct {
	Seed    uint64
	N       int
	Tier    string
	Out     string
	Replay  string
	Extra   map[string]string
	Rng     *Rng
	ops     *bufio.Writer
	impl    *bufio.Writer
	opsF    *os.File
	implF   *os.File
	Cases   int
	Lines   int
	Stats   map[string]int
	Samples []string
	curCase []string
	NonTriv map[string]struct{}
}

// Init parses the common flags: --seed --n --tier --out --replay and -x key=val extras.
func Init() *Ctx {
	c := &Ctx{Stats: map[string]int{}, Extra: map[string]string{}, NonTriv: map[string]struct{}{}}
	seed := flag.Uint64("seed", 1, "PRNG seed")
	n := flag.Int("n", 100, "number of generated cases")
	tier := flag.String("tier", "quick", "quick|thorough")
	out := flag.String("out", "", "output directory")
	replay := flag.String("replay", "", "ops file to replay instead of generating")
	var extras multi
	flag.Var(&extras, "x", "extra key=val")
	flag.Parse()
	c.Seed, c.N, c.Tier, c.Out, c.Replay = *seed, *n, *tier, *out, *replay
	for _, e := range extras {
		kv := strings.SplitN(e, "=", 2)
		if len(kv) == 2 {
			c.Extra[kv[0]] = kv[1]
		}
	}
	c.Rng = NewRng(c.Seed)
	if c.Out == "" {
		fmt.Fprintln(os.Stderr, "--out required")
		os.Exit(2)
	}
	must(os.MkdirAll(c.Out, 0o755))
	var err error
	c.opsF, err = os.Create(filepath.Join(c.Out, "ops.txt"))
	must(err)
	c.implF, err = os.Create(filepath.Join(c.Out, "impl.txt"))
	must(err)
	c.ops = bufio.NewWriterSize(c.opsF, 1<<20)
	c.impl = bufio.NewWriterSize(c.implF, 1<<20)
	return c
}

type multi []string

func (m *multi) String() string     { return strings.Join(*m, ",") }
func (m *multi) Set(s string) error { *m = append(*m, s); return nil }

func must(err error) {
	if err != nil {
		fmt.Fprintln(os.Stderr, "harness error:", err)
		os.Exit(3)
	}
}

// Case starts a new case; id should be unique and stable under the seed.
func (c *Ctx) Case(id string) {
	c.flushSample()
	c.Cases++
	line := "case " + id
	fmt.Fprintln(c.ops, line)
	fmt.Fprintln(c.impl, line)
}

// Op records one operation and the implementation's canonical output for it.
func (c *Ctx) Op(op, out string) {
	if strings.ContainsAny(op, "\n\t") || strings.ContainsAny(out, "\n\t") {
		panic("op/out must not contain newline or tab: " + op + " / " + out)
	}
	c.Lines++
	fmt.Fprintln(c.ops, op)
	fmt.Fprintln(c.impl, out)
	if len(c.Samples) < 3 && len(c.curCase) < 12 {
		c.curCase = append(c.curCase, op+" => "+out)
	}
}

func (c *Ctx) flushSample() {
	if len(c.curCase) > 0 && len(c.Samples) < 3 {
		c.Samples = append(c.Samples, strings.Join(c.curCase, " ; "))
	}
	c.curCase = nil
}

// Count bumps a distribution counter (op kinds, branches, error kinds hit).
func (c *Ctx) Count(key string) { c.Stats[key]++ }

// NonTrivial marks a distinct non-trivial case by a canonical key.
func (c *Ctx) NonTrivial(key string) { c.NonTriv[key] = struct{}{} }

// ReplayLines returns the op lines of a replay file grouped by case.
func (c *Ctx) ReplayCases() [][]string {
	b, err := os.ReadFile(c.Replay)
	must(err)
	var cases [][]string
	var cur []string
	started := false
	for _, l := range strings.Split(string(b), "\n") {
		if l == "" {
			continue
		}
		if strings.HasPrefix(l, "#") {
			continue
		}
		if strings.HasPrefix(l, "case ") {
			if started {
				cases = append(cases, cur)
			}
			cur = []string{l}
			started = true
			continue
		}
		if !started {
			cur = []string{"case replay"}
			started = true
		}
		// replay files may carry "op\timpl" pairs; keep the op only
		if i := strings.IndexByte(l, '\t'); i >= 0 {
			l = l[:i]
		}
		cur = append(cur, l)
	}
	if started {
		cases = append(cases, cur)
	}
	return cases
}

// Finish flushes and writes stats.json.
func (c *Ctx) Finish() {
	c.flushSample()
	must(c.ops.Flush())
	must(c.impl.Flush())
	c.opsF.Close()
	c.implF.Close()
	keys := make([]string, 0, len(c.Stats))
	for k := range c.Stats {
		keys = append(keys, k)
	}
	sort.Strings(keys)
	st := map[string]any{
		"cases": c.Cases, "lines": c.Lines, "distribution": c.Stats,
		"distinct_nontrivial": len(c.NonTriv), "samples": c.Samples, "seed": c.Seed,
	}
	b, _ := json.MarshalIndent(st, "", " ")
	must(os.WriteFile(filepath.Join(c.Out, "stats.json"), b, 0o644))
}

// Hex encodes bytes for the line protocol ("-" for empty).
func Hex(b []byte) string {
	if len(b) == 0 {
		return "-"
	}
	return hex.EncodeToString(b)
}

func HexS(s string) string { return Hex([]byte(s)) }

func UnHex(s string) []byte {
	if s == "-" {
		return nil
	}
	b, err := hex.DecodeString(s)
	if err != nil {
		panic(err)
	}
	return b
}

// TempDir creates a scratch directory, on tmpfs when available (fsync on the shared disk is slow
// and noisy under load); the caller removes it.
func TempDir(prefix string) string {
	base := ""
	if st, err := os.Stat("/dev/shm"); err == nil && st.IsDir() {
		base = "/dev/shm"
	}
	d, err := os.MkdirTemp(base, prefix)
	must(err)
	return d
}

// Try runs f and reports whether it panicked.
func Try(f func()) (panicked bool, val any) {
	defer func() {
		if r := recover(); r != nil {
			panicked, val = true, r
		}
	}()
	f()
	return false, nil
}

// I64 boundary pool used by many suites.
var I64Edges = []int64{-9223372036854775808, -9223372036854775807, -1, 0, 1, 9223372036854775806, 9223372036854775807}
