module verif/harness

go 1.25.10

require (
	github.com/prometheus/common v0.70.1
	github.com/prometheus/prometheus v0.0.0
)

require (
	cloud.google.com/go/auth v0.20.0 // indirect
	cloud.google.com/go/auth/oauth2adapt v0.2.8 // indirect
	cloud.google.com/go/compute/metadata v0.9.0 // indirect
	github.com/Azure/azure-sdk-for-go/sdk/azcore v1.22.0 // indirect
	github.com/Azure/azure-sdk-for-go/sdk/azidentity v1.14.0 // indirect
	github.com/Azure/azure-sdk-for-go/sdk/internal v1.12.0 // indirect
	github.com/AzureAD/microsoft-authentication-library-for-go v1.7.2 // indirect
	github.com/alecthomas/units v0.0.0-20240927000941-0f3dac36c52b // indirect
	github.com/aws/aws-sdk-go-v2 v1.43.4 // indirect
	github.com/aws/aws-sdk-go-v2/config v1.32.35 // indirect
	github.com/aws/aws-sdk-go-v2/credentials v1.19.34 // indirect
	github.com/aws/aws-sdk-go-v2/feature/ec2/imds v1.18.35 // indirect
	github.com/aws/aws-sdk-go-v2/internal/configsources v1.4.35 // indirect
	github.com/aws/aws-sdk-go-v2/internal/endpoints/v2 v2.7.35 // indirect
	github.com/aws/aws-sdk-go-v2/internal/v4a v1.4.36 // indirect
	github.com/aws/aws-sdk-go-v2/service/internal/accept-encoding v1.13.15 // indirect
	github.com/aws/aws-sdk-go-v2/service/internal/presigned-url v1.13.35 // indirect
	github.com/aws/aws-sdk-go-v2/service/signin v1.5.4 // indirect
	github.com/aws/aws-sdk-go-v2/service/sso v1.33.4 // indirect
	github.com/aws/aws-sdk-go-v2/service/ssooidc v1.38.4 // indirect
	github.com/aws/aws-sdk-go-v2/service/sts v1.45.4 // indirect
	github.com/aws/smithy-go v1.27.7 // indirect
	github.com/bboreham/go-loser v0.0.0-20230920113527-fcc2c21820a3 // indirect
	github.com/beorn7/perks v1.0.1 // indirect
	github.com/cenkalti/backoff/v5 v5.0.3 // indirect
	github.com/cespare/xxhash/v2 v2.3.0 // indirect
	github.com/davecgh/go-spew v1.1.2-0.20180830191138-d8f796af33cc // indirect
	github.com/dennwc/varint v1.0.0 // indirect
	github.com/felixge/httpsnoop v1.1.0 // indirect
	github.com/go-logr/logr v1.4.3 // indirect
	github.com/go-logr/stdr v1.2.2 // indirect
	github.com/golang-jwt/jwt/v5 v5.3.1 // indirect
	github.com/golang/snappy v1.0.0 // indirect
	github.com/google/go-cmp v0.7.0 // indirect
	github.com/google/s2a-go v0.1.9 // indirect
	github.com/google/uuid v1.6.0 // indirect
	github.com/googleapis/enterprise-certificate-proxy v0.3.18 // indirect
	github.com/googleapis/gax-go/v2 v2.23.0 // indirect
	github.com/grafana/regexp v0.0.0-20250905093917-f7b3be9d1853 // indirect
	github.com/jpillora/backoff v1.0.0 // indirect
	github.com/klauspost/compress v1.19.2 // indirect
	github.com/kylelemons/godebug v1.1.0 // indirect
	github.com/munnerz/goautoneg v0.0.0-20191010083416-a7dc8b61c822 // indirect
	github.com/mwitkow/go-conntrack v0.0.0-20190716064945-2f068394615f // indirect
	github.com/oklog/ulid/v2 v2.1.2 // indirect
	github.com/pkg/browser v0.0.0-20240102092130-5ac0b6a4141c // indirect
	github.com/pmezard/go-difflib v1.0.1-0.20181226105442-5d4384ee4fb2 // indirect
	github.com/prometheus/client_golang v1.24.1 // indirect
	github.com/prometheus/client_golang/exp v0.0.0-20260724065723-ecdb8254ba61 // indirect
	github.com/prometheus/client_model v0.6.2 // indirect
	github.com/prometheus/otlptranslator v1.0.0 // indirect
	github.com/prometheus/procfs v0.21.1 // indirect
	github.com/prometheus/sigv4 v0.4.1 // indirect
	github.com/stretchr/testify v1.11.1 // indirect
	go.opentelemetry.io/auto/sdk v1.2.1 // indirect
	go.opentelemetry.io/contrib/instrumentation/net/http/otelhttp v0.69.0 // indirect
	go.opentelemetry.io/otel v1.44.0 // indirect
	go.opentelemetry.io/otel/metric v1.44.0 // indirect
	go.opentelemetry.io/otel/trace v1.44.0 // indirect
	go.uber.org/atomic v1.11.0 // indirect
	go.uber.org/goleak v1.3.0 // indirect
	go.yaml.in/yaml/v2 v2.4.4 // indirect
	golang.org/x/crypto v0.54.0 // indirect
	golang.org/x/exp v0.0.0-20260709172345-9ea1abe57597 // indirect
	golang.org/x/net v0.57.0 // indirect
	golang.org/x/oauth2 v0.36.0 // indirect
	golang.org/x/sync v0.22.0 // indirect
	golang.org/x/sys v0.47.0 // indirect
	golang.org/x/text v0.40.0 // indirect
	golang.org/x/time v0.15.0 // indirect
	google.golang.org/api v0.290.0 // indirect
	google.golang.org/genproto/googleapis/rpc v0.0.0-20260729162451-8efbd57d26e0 // indirect
	google.golang.org/grpc v1.82.1 // indirect
	google.golang.org/protobuf v1.36.12 // indirect
	gopkg.in/yaml.v3 v3.0.1 // indirect
	k8s.io/apimachinery v0.35.3 // indirect
	k8s.io/client-go v0.35.3 // indirect
	k8s.io/klog/v2 v2.140.0 // indirect
	k8s.io/utils v0.0.0-20260210185600-b8788abfbbc2 // indirect
)

replace github.com/prometheus/prometheus => /repo
