module verif/harness

go 1.25.10

require github.com/prometheus/prometheus v0.0.0

require (
	github.com/beorn7/perks v1.0.1 // indirect
	github.com/cespare/xxhash/v2 v2.3.0 // indirect
	github.com/dennwc/varint v1.0.0 // indirect
	github.com/grafana/regexp v0.0.0-20250905093917-f7b3be9d1853 // indirect
	github.com/munnerz/goautoneg v0.0.0-20191010083416-a7dc8b61c822 // indirect
	github.com/prometheus/client_golang v1.24.1 // indirect
	github.com/prometheus/client_model v0.6.2 // indirect
	github.com/prometheus/common v0.70.1 // indirect
	github.com/prometheus/procfs v0.21.1 // indirect
	go.uber.org/atomic v1.11.0 // indirect
	golang.org/x/sys v0.47.0 // indirect
	golang.org/x/text v0.40.0 // indirect
	google.golang.org/protobuf v1.36.12 // indirect
)

replace github.com/prometheus/prometheus => /repo
