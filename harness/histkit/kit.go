// Package histkit is shared by the suites hist (C11) and hint (C12): canonical text form of native
// histograms (both flavours), a generator of valid histogram sequences that keeps hitting the
// appender's decision boundaries, and readers over chunk iterators.
package histkit

import (
	"fmt"
	"math"
	"sort"
	"strconv"
	"strings"

	"github.com/prometheus/prometheus/model/histogram"
	"github.com/prometheus/prometheus/model/value"
	"github.com/prometheus/prometheus/tsdb/chunkenc"

	"verif/harness/h"
)

// H is one histogram of either flavour.
type H struct {
	I *histogram.Histogram
	F *histogram.FloatHistogram
}

func (x H) Float() bool { return x.F != nil }

func (x H) Copy() H {
	if x.F != nil {
		return H{F: x.F.Copy()}
	}
	return H{I: x.I.Copy()}
}

func (x H) Stale() bool {
	if x.F != nil {
		return value.IsStaleNaN(x.F.Sum)
	}
	return value.IsStaleNaN(x.I.Sum)
}

func hex64(v uint64) string { return fmt.Sprintf("%016x", v) }
func fb(f float64) string   { return hex64(math.Float64bits(f)) }

func spansStr(sp []histogram.Span) string {
	if len(sp) == 0 {
		return "-"
	}
	p := make([]string, len(sp))
	for i, s := range sp {
		p[i] = fmt.Sprintf("%d:%d", s.Offset, s.Length)
	}
	return strings.Join(p, ",")
}

func IntsStr(xs []int64) string {
	if len(xs) == 0 {
		return "-"
	}
	p := make([]string, len(xs))
	for i, x := range xs {
		p[i] = strconv.FormatInt(x, 10)
	}
	return strings.Join(p, ",")
}

func FloatsStr(xs []float64) string {
	if len(xs) == 0 {
		return "-"
	}
	p := make([]string, len(xs))
	for i, x := range xs {
		p[i] = fb(x)
	}
	return strings.Join(p, ",")
}

func SpansStr(sp []histogram.Span) string { return spansStr(sp) }

// Tok renders fl/hint/schema/zt/count/zcount/sum/pspans/nspans/pb/nb/custom.
func Tok(x H) string {
	if x.F != nil {
		f := x.F
		return strings.Join([]string{"f", strconv.Itoa(int(f.CounterResetHint)), strconv.Itoa(int(f.Schema)), fb(f.ZeroThreshold),
			fb(f.Count), fb(f.ZeroCount), fb(f.Sum), spansStr(f.PositiveSpans), spansStr(f.NegativeSpans),
			FloatsStr(f.PositiveBuckets), FloatsStr(f.NegativeBuckets), FloatsStr(f.CustomValues)}, "/")
	}
	i := x.I
	return strings.Join([]string{"i", strconv.Itoa(int(i.CounterResetHint)), strconv.Itoa(int(i.Schema)), fb(i.ZeroThreshold),
		strconv.FormatUint(i.Count, 10), strconv.FormatUint(i.ZeroCount, 10), fb(i.Sum), spansStr(i.PositiveSpans), spansStr(i.NegativeSpans),
		IntsStr(i.PositiveBuckets), IntsStr(i.NegativeBuckets), FloatsStr(i.CustomValues)}, "/")
}

func ParseSpans(s string) []histogram.Span {
	if s == "-" {
		return nil
	}
	var out []histogram.Span
	for _, p := range strings.Split(s, ",") {
		ab := strings.SplitN(p, ":", 2)
		o, _ := strconv.ParseInt(ab[0], 10, 32)
		l, _ := strconv.ParseUint(ab[1], 10, 32)
		out = append(out, histogram.Span{Offset: int32(o), Length: uint32(l)})
	}
	return out
}

func ParseInts(s string) []int64 {
	if s == "-" {
		return nil
	}
	var out []int64
	for _, p := range strings.Split(s, ",") {
		v, _ := strconv.ParseInt(p, 10, 64)
		out = append(out, v)
	}
	return out
}

func pf(s string) float64 {
	v, _ := strconv.ParseUint(s, 16, 64)
	return math.Float64frombits(v)
}

func ParseFloats(s string) []float64 {
	if s == "-" {
		return nil
	}
	var out []float64
	for _, p := range strings.Split(s, ",") {
		out = append(out, pf(p))
	}
	return out
}

// Parse is the inverse of Tok.
func Parse(tok string) H {
	f := strings.Split(tok, "/")
	hint, _ := strconv.Atoi(f[1])
	schema, _ := strconv.Atoi(f[2])
	if f[0] == "f" {
		return H{F: &histogram.FloatHistogram{
			CounterResetHint: histogram.CounterResetHint(hint), Schema: int32(schema), ZeroThreshold: pf(f[3]),
			Count: pf(f[4]), ZeroCount: pf(f[5]), Sum: pf(f[6]),
			PositiveSpans: ParseSpans(f[7]), NegativeSpans: ParseSpans(f[8]),
			PositiveBuckets: ParseFloats(f[9]), NegativeBuckets: ParseFloats(f[10]), CustomValues: ParseFloats(f[11]),
		}}
	}
	cnt, _ := strconv.ParseUint(f[4], 10, 64)
	zc, _ := strconv.ParseUint(f[5], 10, 64)
	return H{I: &histogram.Histogram{
		CounterResetHint: histogram.CounterResetHint(hint), Schema: int32(schema), ZeroThreshold: pf(f[3]),
		Count: cnt, ZeroCount: zc, Sum: pf(f[6]),
		PositiveSpans: ParseSpans(f[7]), NegativeSpans: ParseSpans(f[8]),
		PositiveBuckets: ParseInts(f[9]), NegativeBuckets: ParseInts(f[10]), CustomValues: ParseFloats(f[11]),
	}}
}

// Sample is one read sample.
type Sample struct {
	T int64
	H H
}

func SamplesStr(ss []Sample) string {
	if len(ss) == 0 {
		return "-"
	}
	p := make([]string, len(ss))
	for i, s := range ss {
		p[i] = strconv.FormatInt(s.T, 10) + "=" + Tok(s.H)
	}
	return strings.Join(p, ";")
}

// Drain reads a sample iterator to its end (histograms only; floats are reported as an error).
func Drain(it chunkenc.Iterator) ([]Sample, string) {
	var out []Sample
	for {
		switch it.Next() {
		case chunkenc.ValNone:
			if it.Err() != nil {
				return out, "err-iter"
			}
			return out, ""
		case chunkenc.ValHistogram:
			t, x := it.AtHistogram(nil)
			out = append(out, Sample{t, H{I: x.Copy()}})
		case chunkenc.ValFloatHistogram:
			t, x := it.AtFloatHistogram(nil)
			out = append(out, Sample{t, H{F: x.Copy()}})
		default:
			return out, "err-float-sample"
		}
	}
}

// ------------------------------------------------------------------ generator

// Gen evolves one series of valid histograms.
type Gen struct {
	R        *h.Rng
	Float    bool
	Gauge    bool
	Schema   int32
	ZT       float64
	Custom   []float64
	Pos, Neg map[int]int64 // bucket index -> count (in units; float flavour halves them sometimes)
	Known    map[int]bool  // positive indices that ever appeared (candidates for explicit zero buckets)
	KnownN   map[int]bool
	ZC       int64
	Sum      float64
	Half     bool // float flavour: counts are multiples of 0.5
	T        int64
	Mixed    bool // allow flavour switches
	Count    func(string)
}

func NewGen(r *h.Rng, count func(string)) *Gen {
	g := &Gen{R: r, Count: count, Pos: map[int]int64{}, Neg: map[int]int64{}, Known: map[int]bool{}, KnownN: map[int]bool{}}
	g.Float = r.Chance(40)
	g.Gauge = r.Chance(25)
	g.Mixed = r.Chance(15)
	g.Half = r.Chance(50)
	g.pickSchema()
	g.T = h.PickI64(r, []int64{0, 1, 1000, -5000, 1700000000000, 3599990, 7199000})
	n := r.Intn(5)
	for i := 0; i < n; i++ {
		g.addBucket()
	}
	return g
}

func (g *Gen) pickSchema() {
	r := g.R
	if r.Chance(25) {
		g.Schema = histogram.CustomBucketsSchema
		n := 1 + r.Intn(8)
		g.Custom = nil
		v := float64(r.Range(-3, 3))
		for i := 0; i < n; i++ {
			switch r.Intn(4) {
			case 0:
				v += 0.001 * float64(1+r.Intn(5000))
			case 1:
				v += 0.5
			case 2:
				v += float64(1 + r.Intn(40000))
			default:
				v += 1.0 / 3
			}
			g.Custom = append(g.Custom, v)
		}
		g.ZT = 0
		g.ZC = 0
		g.Neg = map[int]int64{}
		g.KnownN = map[int]bool{}
		// drop buckets beyond the bounds
		for k := range g.Pos {
			if k < 0 || k > len(g.Custom) {
				delete(g.Pos, k)
			}
		}
		for k := range g.Known {
			if k < 0 || k > len(g.Custom) {
				delete(g.Known, k)
			}
		}
		return
	}
	g.Custom = nil
	g.Schema = int32(r.Range(-4, 8))
	g.ZT = h.Pick(r, []float64{0, math.Ldexp(1, -128), 0.001, 1, math.Ldexp(1, -243), math.Ldexp(1, 10), 2048, 0.5})
}

func (g *Gen) custom() bool { return g.Schema == histogram.CustomBucketsSchema }

func (g *Gen) randIdx(neg bool) int {
	r := g.R
	if g.custom() {
		return r.Intn(len(g.Custom) + 1)
	}
	m := g.Pos
	if neg {
		m = g.Neg
	}
	if len(m) > 0 && r.Chance(70) {
		// near an existing bucket: adjacent, gap of one, or far
		keys := keysOf(m)
		k := keys[r.Intn(len(keys))]
		return k + int(h.PickI64(r, []int64{-3, -2, -1, 1, 2, 3, 7, -7}))
	}
	return int(r.Range(-20, 20))
}

func (g *Gen) addBucket() {
	neg := !g.custom() && g.R.Chance(35)
	i := g.randIdx(neg)
	c := int64(1 + g.R.Intn(5))
	if g.R.Chance(5) {
		c = 1 << 20
	}
	if neg {
		g.Neg[i] += c
		g.KnownN[i] = true
	} else {
		g.Pos[i] += c
		g.Known[i] = true
	}
}

func keysOf(m map[int]int64) []int {
	ks := make([]int, 0, len(m))
	for k := range m {
		ks = append(ks, k)
	}
	sort.Ints(ks)
	return ks
}

func sortedKeys(m map[int]bool) []int {
	ks := make([]int, 0, len(m))
	for k := range m {
		ks = append(ks, k)
	}
	sort.Ints(ks)
	return ks
}

// layout picks the materialised bucket indices of one side: all populated ones plus a random choice of
// known-but-empty ones, and renders spans with occasional split / zero-length spans.
func (g *Gen) layout(m map[int]int64, known map[int]bool, zeroMode int) ([]histogram.Span, []int64) {
	r := g.R
	var idx []int
	for _, k := range sortedKeys(known) {
		if m[k] != 0 {
			idx = append(idx, k)
			continue
		}
		switch zeroMode {
		case 0: // none of the empty ones
		case 1: // all
			idx = append(idx, k)
		default:
			if r.Bool() {
				idx = append(idx, k)
			}
		}
	}
	var spans []histogram.Span
	var vals []int64
	next := 0 // index right after the last bucket
	for n, k := range idx {
		vals = append(vals, m[k])
		if n > 0 && k == next && !r.Chance(4) {
			spans[len(spans)-1].Length++
		} else {
			off := k - next
			if n > 0 && off > 1 && r.Chance(4) {
				// zero-length span in the gap
				a := r.Intn(off)
				spans = append(spans, histogram.Span{Offset: int32(a), Length: 0})
				off -= a
			}
			spans = append(spans, histogram.Span{Offset: int32(off), Length: 1})
		}
		next = k + 1
	}
	if len(spans) > 0 && r.Chance(3) && !g.custom() {
		spans = append(spans, histogram.Span{Offset: int32(r.Intn(3)), Length: 0})
	}
	if len(idx) == 0 && r.Chance(3) && !g.custom() {
		spans = append(spans, histogram.Span{Offset: int32(r.Range(-2, 2)), Length: 0})
	}
	return spans, vals
}

func (g *Gen) scale(v int64) float64 {
	if g.Half {
		return float64(v) / 2
	}
	return float64(v)
}

// Emit renders the current state as a histogram with hint `hint`.
func (g *Gen) Emit(hint histogram.CounterResetHint) H {
	zeroMode := g.R.Intn(3)
	ps, pv := g.layout(g.Pos, g.Known, zeroMode)
	ns, nv := g.layout(g.Neg, g.KnownN, zeroMode)
	var total int64 = g.ZC
	for _, v := range pv {
		total += v
	}
	for _, v := range nv {
		total += v
	}
	var cv []float64
	if g.custom() {
		cv = append([]float64(nil), g.Custom...)
	}
	if g.Float {
		f := &histogram.FloatHistogram{CounterResetHint: hint, Schema: g.Schema, ZeroThreshold: g.ZT, Count: g.scale(total),
			ZeroCount: g.scale(g.ZC), Sum: g.Sum, PositiveSpans: ps, NegativeSpans: ns, CustomValues: cv}
		for _, v := range pv {
			f.PositiveBuckets = append(f.PositiveBuckets, g.scale(v))
		}
		for _, v := range nv {
			f.NegativeBuckets = append(f.NegativeBuckets, g.scale(v))
		}
		return H{F: f}
	}
	i := &histogram.Histogram{CounterResetHint: hint, Schema: g.Schema, ZeroThreshold: g.ZT, Count: uint64(total),
		ZeroCount: uint64(g.ZC), Sum: g.Sum, PositiveSpans: ps, NegativeSpans: ns, CustomValues: cv}
	var last int64
	for _, v := range pv {
		i.PositiveBuckets = append(i.PositiveBuckets, v-last)
		last = v
	}
	last = 0
	for _, v := range nv {
		i.NegativeBuckets = append(i.NegativeBuckets, v-last)
		last = v
	}
	return H{I: i}
}

func (g *Gen) StaleMarker() H {
	hint := histogram.UnknownCounterReset
	if g.Gauge && g.R.Chance(70) {
		hint = histogram.GaugeType
	}
	if g.Float {
		return H{F: &histogram.FloatHistogram{Sum: math.Float64frombits(value.StaleNaN), CounterResetHint: hint}}
	}
	return H{I: &histogram.Histogram{Sum: math.Float64frombits(value.StaleNaN), CounterResetHint: hint}}
}

func (g *Gen) bump(m map[int]int64) {
	ks := keysOf(m)
	if len(ks) == 0 {
		return
	}
	n := 1 + g.R.Intn(3)
	for i := 0; i < n; i++ {
		m[ks[g.R.Intn(len(ks))]] += int64(g.R.Intn(4))
	}
}

// Step advances time, mutates the state and returns the next sample.
func (g *Gen) Step() (int64, H) {
	r := g.R
	g.T += h.PickI64(r, []int64{1, 1, 15, 1000, 15000, 15000, 60000, 600000})
	hint := histogram.UnknownCounterReset
	if g.Gauge {
		hint = histogram.GaugeType
	}
	g.Sum += float64(r.Intn(8)) * 0.25
	c := r.Intn(100)
	switch {
	case c < 30: // plain growth
		g.bump(g.Pos)
		g.bump(g.Neg)
		if !g.custom() {
			g.ZC += int64(r.Intn(3))
		}
		g.Count("step:grow")
	case c < 50: // new bucket(s): forward recoding
		n := 1 + r.Intn(3)
		for i := 0; i < n; i++ {
			g.addBucket()
		}
		g.Count("step:newbucket")
	case c < 58: // nothing changes
		g.Count("step:same")
	case c < 66: // counter reset / gauge decrease in some field
		g.Count("step:decrease")
		switch r.Intn(4) {
		case 0:
			for _, k := range keysOf(g.Pos) {
				if v := g.Pos[k]; v > 0 && r.Chance(60) {
					g.Pos[k] = v - 1 - int64(r.Intn(int(min64(v, 3))))
					if g.Pos[k] < 0 {
						g.Pos[k] = 0
					}
					if r.Chance(60) {
						// the observations "move": the total does not go down, only this bucket does
						g.Count("step:redistribute")
						ks := keysOf(g.Pos)
						g.Pos[ks[r.Intn(len(ks))]] += v - g.Pos[k] + int64(r.Intn(2))
						if g.Pos[k] >= v {
							g.Pos[k] = v - 1
							k2 := k + 1
							if g.custom() && k2 > len(g.Custom) {
								k2 = k - 1
							}
							g.Pos[k2] += 2
							g.Known[k2] = true
						}
					}
					break
				}
			}
		case 1:
			for _, k := range keysOf(g.Neg) {
				if g.Neg[k] > 0 {
					g.Neg[k] = 0
					break
				}
			}
		case 2:
			if g.ZC > 0 {
				g.ZC--
				if r.Bool() {
					g.bump(g.Pos)
					g.bump(g.Pos)
				}
			}
		default:
			g.Pos, g.Neg, g.ZC = map[int]int64{}, map[int]int64{}, 0
			if r.Bool() {
				g.Known, g.KnownN = map[int]bool{}, map[int]bool{}
			}
		}
	case c < 70: // explicit hints
		hint = h.Pick(r, []histogram.CounterResetHint{histogram.CounterReset, histogram.NotCounterReset, histogram.CounterReset})
		g.Count("step:hint")
		if r.Bool() {
			g.bump(g.Pos)
		}
	case c < 75: // schema / threshold / bounds change
		g.Count("step:layoutkey")
		switch r.Intn(3) {
		case 0:
			g.pickSchema()
		case 1:
			if !g.custom() {
				g.ZT = h.Pick(r, []float64{0, math.Ldexp(1, -128), 0.001, 1, 3, math.Ldexp(1, -243)})
			} else {
				g.pickSchema()
			}
		default:
			if g.custom() && len(g.Custom) > 0 {
				g.Custom[r.Intn(len(g.Custom))] += 0.0001
				sort.Float64s(g.Custom)
			} else {
				g.pickSchema()
			}
		}
	case c < 82: // staleness marker
		g.Count("step:stale")
		return g.T, g.StaleMarker()
	case c < 86: // gauge/counter switch
		g.Gauge = !g.Gauge
		g.Count("step:gaugeswitch")
		hint = histogram.UnknownCounterReset
		if g.Gauge {
			hint = histogram.GaugeType
		}
	case c < 90:
		if g.Mixed {
			g.Float = !g.Float
			g.Count("step:flavourswitch")
		}
	default: // forget empty buckets (so later layouts lack them: backward recoding candidates)
		g.Count("step:forget")
		for _, k := range sortedKeys(g.Known) {
			if g.Pos[k] == 0 && r.Bool() {
				delete(g.Known, k)
				delete(g.Pos, k)
			}
		}
		g.bump(g.Pos)
	}
	return g.T, g.Emit(hint)
}

func min64(a, b int64) int64 {
	if a < b {
		return a
	}
	return b
}

// ------------------------------------------------------------------ semantic form

func idxsOf(spans []histogram.Span) []int {
	var out []int
	cur := 0
	for _, s := range spans {
		cur += int(s.Offset)
		for k := 0; k < int(s.Length); k++ {
			out = append(out, cur)
			cur++
		}
	}
	return out
}

// SemTok renders fl/hint/schema/zt/count/zcount/sum/posmap/negmap/custom with maps idx:val of the
// populated buckets only (int flavour: absolute counts; float flavour: value bits).
func SemTok(x H) string {
	mapStr := func(spans []histogram.Span, iv []int64, fv []float64) string {
		var p []string
		idx := idxsOf(spans)
		if fv != nil {
			for i, v := range fv {
				if v != 0 && i < len(idx) {
					p = append(p, fmt.Sprintf("%d:%s", idx[i], fb(v)))
				}
			}
		} else {
			var cur int64
			for i, d := range iv {
				cur += d
				if cur != 0 && i < len(idx) {
					p = append(p, fmt.Sprintf("%d:%d", idx[i], cur))
				}
			}
		}
		if len(p) == 0 {
			return "-"
		}
		return strings.Join(p, ",")
	}
	if x.F != nil {
		f := x.F
		return strings.Join([]string{"f", strconv.Itoa(int(f.CounterResetHint)), strconv.Itoa(int(f.Schema)), fb(f.ZeroThreshold),
			fb(f.Count), fb(f.ZeroCount), fb(f.Sum), mapStr(f.PositiveSpans, nil, append([]float64{}, f.PositiveBuckets...)),
			mapStr(f.NegativeSpans, nil, append([]float64{}, f.NegativeBuckets...)), FloatsStr(f.CustomValues)}, "/")
	}
	i := x.I
	return strings.Join([]string{"i", strconv.Itoa(int(i.CounterResetHint)), strconv.Itoa(int(i.Schema)), fb(i.ZeroThreshold),
		strconv.FormatUint(i.Count, 10), strconv.FormatUint(i.ZeroCount, 10), fb(i.Sum), mapStr(i.PositiveSpans, i.PositiveBuckets, nil),
		mapStr(i.NegativeSpans, i.NegativeBuckets, nil), FloatsStr(i.CustomValues)}, "/")
}

func SemSamplesStr(ss []Sample) string {
	if len(ss) == 0 {
		return "-"
	}
	p := make([]string, len(ss))
	for i, s := range ss {
		p[i] = strconv.FormatInt(s.T, 10) + "=" + SemTok(s.H)
	}
	return strings.Join(p, ";")
}
