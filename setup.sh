#!/bin/bash
# Offline setup after a fresh restore: generate registry/manifest, build the Lean workspace
# (models, proofs, property theorems, compiled driver) and warm the Go build cache for every suite.
set -u
cd "$(dirname "$0")"
export GOFLAGS=-mod=mod GOPROXY=off
unset GOSUMDB
python3 tools/gen.py || exit 1
(cd lean && lake build 2>&1 | tail -5) || true
cp /repo/go.sum harness/go.sum
mkdir -p .build/bin
for d in harness/suites/*/; do
  s=$(basename "$d")
  (cd harness && go build -tags verif -o ../.build/bin/$s ./suites/$s 2>&1 | tail -3) &
  # bounded parallelism
  while [ "$(jobs -r | wc -l)" -ge 6 ]; do sleep 0.5; done
done
wait
# extra build variants declared by checks (tags other than "verif")
python3 - <<'PY'
import json,glob,subprocess,os
for f in sorted(glob.glob("checks/C*.json")):
    c=json.load(open(f))
    for s in c.get("suites",[]):
        t=s.get("tags","verif")
        if t!="verif":
            subprocess.run(["go","build","-tags",t,"-o",f"../.build/bin/{s['name']}-{t.replace(',','_')}",s.get("go_pkg","./suites/"+s["name"])],cwd="harness")
PY
echo "setup done"
exit 0
